package main

// Synthetic streams: ConstructPatches, choosePatches, computeVulnsResult and MatchVuln on
// hand-made inputs (breadth: duplicate keys, removed requirements, odd types, duplicate IDs ...).

import (
	"fmt"
	"math"
	"math/rand"

	"deps.dev/util/resolve"
	"deps.dev/util/resolve/dep"
	gr "github.com/google/osv-scalibr/guidedremediation"
	"github.com/google/osv-scalibr/guidedremediation/options"
	"github.com/google/osv-scalibr/guidedremediation/result"
	"verifharness/internal/coqfmt"
)

// ---- ConstructPatches

type ConstructCase struct {
	Kind     string `json:"kind"`
	Stream   string `json:"stream"`
	Sys      string `json:"sys"`
	OldReqs  []Req  `json:"old_reqs"`
	NewReqs  []Req  `json:"new_reqs"`
	OldVulns []Vuln `json:"old_vulns"`
	NewVulns []Vuln `json:"new_vulns"`
	Obs      Patch  `json:"observed"`
}

func typePool(sys resolve.System) []dep.Type {
	mk := func(kv ...any) dep.Type {
		t := dep.NewType()
		for i := 0; i+1 < len(kv); i += 2 {
			t.AddAttr(kv[i].(dep.AttrKey), kv[i+1].(string))
		}
		return t
	}
	if sys == resolve.NPM {
		return []dep.Type{mk(), mk(), mk(), mk(dep.KnownAs, "al"), mk(dep.KnownAs, "am"), mk(dep.Opt, ""), mk(dep.Dev, "")}
	}
	return []dep.Type{mk(), mk(), mk(), mk(dep.MavenDependencyOrigin, "management"), mk(dep.MavenDependencyOrigin, "management"),
		mk(dep.MavenClassifier, "tests"), mk(dep.MavenArtifactType, "pom"),
		mk(dep.MavenDependencyOrigin, "management", dep.MavenClassifier, "tests"),
		mk(dep.Scope, "test"), mk(dep.MavenDependencyOrigin, "profile@x")}
}

func toRV(sys resolve.System, rs []Req) []resolve.RequirementVersion {
	out := make([]resolve.RequirementVersion, 0, len(rs))
	for _, r := range rs {
		out = append(out, resolve.RequirementVersion{
			VersionKey: resolve.VersionKey{PackageKey: resolve.PackageKey{System: sys, Name: r.Name}, VersionType: resolve.Requirement, Version: r.Version},
			Type:       r.typ,
		})
	}
	return out
}

func toSyn(vs []Vuln) []gr.VerifC12SynVuln {
	out := make([]gr.VerifC12SynVuln, 0, len(vs))
	for _, v := range vs {
		sv := gr.VerifC12SynVuln{ID: v.ID}
		for _, p := range v.Packages {
			sv.Packages = append(sv.Packages, result.Package{Name: p[0], Version: p[1]})
		}
		out = append(out, sv)
	}
	return out
}

func mkReq(sys resolve.System, name, ver string, t dep.Type) Req {
	s, tk, o := typeParts(sys, t)
	return Req{Name: name, Version: ver, Type: s, TK: tk, Origin: o, typ: t}
}

func genVulnList(r *rand.Rand, ids []string, n int, dup bool) []Vuln {
	var out []Vuln
	used := map[string]bool{}
	for i := 0; i < n; i++ {
		id := pick(r, ids)
		if used[id] && !dup {
			continue
		}
		used[id] = true
		v := Vuln{ID: id}
		for k := r.Intn(3); k >= 0; k-- {
			v.Packages = append(v.Packages, [2]string{fmt.Sprintf("n%d", r.Intn(3)), fmt.Sprintf("%d.0", r.Intn(3))})
		}
		out = append(out, v)
	}
	return out
}

func genConstruct(r *rand.Rand, wild bool) *ConstructCase {
	sysName := pick(r, []string{"npm", "maven"})
	sys := sysOf(sysName)
	c := &ConstructCase{Kind: "construct", Sys: sysName, Stream: "structured"}
	if wild {
		c.Stream = "wild"
	}
	pool := typePool(sys)
	names := []string{"a", "b", "c", "d", "e", "b.c", ""}
	vers := []string{"1.0", "1.1", "^2.0.0", "2.0", "", "10.0", "9"}
	n := r.Intn(6)
	seen := map[string]bool{}
	for i := 0; i < n; i++ {
		t := pick(r, pool)
		rq := mkReq(sys, pick(r, names[:5]), pick(r, vers), t)
		k := rq.Name + "|" + rq.TK
		if seen[k] && !(wild && r.Intn(3) == 0) {
			continue
		}
		seen[k] = true
		c.OldReqs = append(c.OldReqs, rq)
	}
	// new = old with some versions changed; the strategies patch a clone
	for _, rq := range c.OldReqs {
		if wild && r.Intn(8) == 0 {
			continue // removed
		}
		nr := rq
		if r.Intn(2) == 0 {
			nr.Version = pick(r, vers)
		}
		if wild && r.Intn(8) == 0 {
			nr = mkReq(sys, rq.Name, nr.Version, pick(r, pool)) // type changed
		}
		c.NewReqs = append(c.NewReqs, nr)
		if wild && r.Intn(10) == 0 {
			c.NewReqs = append(c.NewReqs, nr)
		}
	}
	if r.Intn(3) == 0 {
		// one package under two requirement keys (npm: plain and aliased; Maven: jar and tests
		// classifier) at one version, both moved to one new version: two updates that differ in
		// their Type only - both must be reported
		other := dep.NewType()
		if sys == resolve.NPM {
			other.AddAttr(dep.KnownAs, "twin")
		} else {
			other.AddAttr(dep.MavenClassifier, "tests")
		}
		nm, from, to := "tw", pick(r, vers[:4]), pick(r, vers[:4])
		c.OldReqs = append(c.OldReqs, mkReq(sys, nm, from, dep.NewType()), mkReq(sys, nm, from, other))
		c.NewReqs = append(c.NewReqs, mkReq(sys, nm, to, dep.NewType()), mkReq(sys, nm, to, other))
	}
	for k := r.Intn(3); k > 0; k-- { // additions
		t := mgmtType()
		if sys == resolve.NPM {
			t = dep.NewType()
		}
		if wild && r.Intn(3) == 0 {
			t = pick(r, pool)
		}
		nm := pick(r, names)
		if !wild {
			nm = pick(r, names[:5])
		}
		rq := mkReq(sys, nm, pick(r, vers), t)
		key := rq.Name + "|" + rq.TK
		if seen[key] && !wild {
			continue
		}
		seen[key] = true
		c.NewReqs = append(c.NewReqs, rq)
	}
	if wild && r.Intn(4) == 0 {
		r.Shuffle(len(c.NewReqs), func(i, j int) { c.NewReqs[i], c.NewReqs[j] = c.NewReqs[j], c.NewReqs[i] })
	}
	ids := []string{"A-1", "A-10", "A-2", "B-1", "C", "D-9"}
	c.OldVulns = genVulnList(r, ids, r.Intn(5), wild && r.Intn(3) == 0)
	c.NewVulns = genVulnList(r, ids, r.Intn(5), wild && r.Intn(3) == 0)
	// vulnerabilities that stay usually keep their ID
	for _, v := range c.OldVulns {
		if r.Intn(2) == 0 {
			dupl := false
			for _, w := range c.NewVulns {
				if w.ID == v.ID {
					dupl = true
				}
			}
			if !dupl {
				c.NewVulns = append(c.NewVulns, v)
			}
		}
	}
	p := gr.VerifC12ConstructPatches(sys, toRV(sys, c.OldReqs), toSyn(c.OldVulns), toRV(sys, c.NewReqs), toSyn(c.NewVulns))
	c.Obs = convPatch(sys, p)
	return c
}

func (c *ConstructCase) coq() string {
	col := newCollector()
	col.reqs(c.OldReqs)
	col.reqs(c.NewReqs)
	col.vulns(c.OldVulns)
	col.vulns(c.NewVulns)
	col.patch(c.Obs)
	t := col.build()
	return fmt.Sprintf("(Build_ccase %s (M %s %s) (M %s %s) %s)", t.mgmt(),
		t.reqList(c.OldReqs), t.vulnList(c.OldVulns), t.reqList(c.NewReqs), t.vulnList(c.NewVulns), t.patch(c.Obs))
}

// ---- choosePatches

type ChooseCase struct {
	Kind string  `json:"kind"`
	All  []Patch `json:"all"`
	Max  int     `json:"max"`
	NI   bool    `json:"no_introduce"`
	Obs  []Patch `json:"observed"`
}

func fromPatch(sys resolve.System, p Patch) result.Patch {
	var out result.Patch
	for _, u := range p.Updates {
		out.PackageUpdates = append(out.PackageUpdates, result.PackageUpdate{Name: u.Name, VersionFrom: u.From, VersionTo: u.To, Transitive: u.Transitive, Type: u.typ})
	}
	conv := func(vs []Vuln) []result.Vuln {
		var o []result.Vuln
		for _, v := range vs {
			rv := result.Vuln{ID: v.ID}
			for _, q := range v.Packages {
				rv.Packages = append(rv.Packages, result.Package{Name: q[0], Version: q[1]})
			}
			o = append(o, rv)
		}
		return o
	}
	out.Fixed = conv(p.Fixed)
	out.Introduced = conv(p.Introduced)
	return out
}

func genPatchList(r *rand.Rand, n int) []Patch {
	ids := []string{"A-1", "A-2", "B-1", "C", "D-9", "E"}
	names := []string{"a", "b", "c", "d"}
	vers := []string{"1.0", "1.1", "2.0", ""}
	var out []Patch
	for i := 0; i < n; i++ {
		var p Patch
		for k := 1 + r.Intn(2); k > 0; k-- {
			p.Updates = append(p.Updates, Upd{Name: pick(r, names), From: pick(r, vers), To: pick(r, vers[:3]), Transitive: r.Intn(2) == 0, Type: "reg", typ: dep.NewType()})
		}
		for k := r.Intn(3); k > 0; k-- {
			p.Fixed = append(p.Fixed, Vuln{ID: pick(r, ids), Packages: [][2]string{{pick(r, names), pick(r, vers)}}})
		}
		if r.Intn(3) == 0 {
			p.Introduced = append(p.Introduced, Vuln{ID: pick(r, ids)})
		}
		out = append(out, p)
	}
	return out
}

func genChoose(r *rand.Rand) *ChooseCase {
	c := &ChooseCase{Kind: "choose", Max: pick(r, []int{-1, 0, 1, 1, 1, 2, 3}), NI: r.Intn(3) == 0}
	c.All = genPatchList(r, r.Intn(6))
	var in []result.Patch
	for _, p := range c.All {
		in = append(in, fromPatch(resolve.NPM, p))
	}
	c.Obs = convPatches(resolve.NPM, gr.VerifC12ChoosePatches(in, c.Max, c.NI))
	return c
}

func (c *ChooseCase) coq() string {
	col := newCollector()
	col.patches(c.All)
	col.patches(c.Obs)
	t := col.build()
	return fmt.Sprintf("(Build_hcase %s (%d)%%Z %v %s)", t.patchList(c.All), c.Max, c.NI, t.patchList(c.Obs))
}

// ---- computeVulnsResult

type VulnsResultCase struct {
	Kind  string  `json:"kind"`
	Vulns []Vuln  `json:"vulns"`
	All   []Patch `json:"all"`
	Obs   []Vuln  `json:"observed"`
}

func genVulnsResult(r *rand.Rand) *VulnsResultCase {
	c := &VulnsResultCase{Kind: "vulns_result"}
	ids := []string{"A-1", "A-2", "B-1", "C", "D-9", "E", "A-10"}
	c.Vulns = genVulnList(r, ids, r.Intn(6), false)
	c.All = genPatchList(r, r.Intn(4))
	var in []result.Patch
	for _, p := range c.All {
		in = append(in, fromPatch(resolve.NPM, p))
	}
	c.Obs = convVulns(gr.VerifC12ComputeVulnsResultSyn(resolve.NPM, toSyn(c.Vulns), in))
	return c
}

func (c *VulnsResultCase) coq() string {
	col := newCollector()
	col.vulns(c.Vulns)
	col.patches(c.All)
	col.vulns(c.Obs)
	t := col.build()
	return fmt.Sprintf("(Build_vcase %s %s %s)", t.vulnList(c.Vulns), t.patchList(c.All), t.rvulnList(c.Obs))
}

// ---- filtering: ResolveGraphVulns on real analyses, MatchVuln on hand-made vulnerabilities

type FilterCase struct {
	Kind        string   `json:"kind"`
	Stream      string   `json:"stream"`
	Ignore      []string `json:"ignore"`
	Explicit    []string `json:"explicit"`
	DevDeps     bool     `json:"dev_deps"`
	All         []FV     `json:"all"`
	IgnoreAfter []string `json:"ignore_after"`
	Kept        []string `json:"kept"`
}

func filterFromAnalysis(o Opts, a Analysis) *FilterCase {
	ca := canonAnalysis(a, o.Ignore)
	return &FilterCase{Kind: "filter", Stream: "analysis", Ignore: o.Ignore, Explicit: o.Explicit, DevDeps: o.DevDeps, All: ca.All, IgnoreAfter: ca.IgnoreAfter, Kept: ca.Kept}
}

func genMatch(r *rand.Rand) *FilterCase {
	ids := []string{"A-1", "A-2", "B-1", "CVE-1", "CVE-2"}
	c := &FilterCase{Kind: "filter", Stream: "match", DevDeps: r.Intn(2) == 0}
	for k := r.Intn(3); k > 0; k-- {
		c.Ignore = append(c.Ignore, pick(r, ids))
	}
	v := FV{ID: pick(r, ids), DevOnly: r.Intn(2) == 0, SevOK: true, DepthOK: true}
	for k := r.Intn(3); k > 0; k-- {
		v.Aliases = append(v.Aliases, pick(r, ids))
	}
	ro := options.RemediationOptions{IgnoreVulns: c.Ignore, DevDeps: c.DevDeps, MaxDepth: -1}
	v.Matched = gr.VerifC12MatchVuln(ro, v.ID, v.Aliases, v.DevOnly)
	c.All = []FV{v}
	c.IgnoreAfter = c.Ignore
	if v.Matched {
		c.Kept = []string{v.ID}
	}
	return c
}

func (c *FilterCase) coq() string {
	col := newCollector()
	col.fvs(c.All)
	col.s(c.Ignore...)
	col.s(c.Explicit...)
	col.s(c.IgnoreAfter...)
	col.s(c.Kept...)
	t := col.build()
	return fmt.Sprintf("(Build_fcase %s %s %s %s)", t.opts(c.Ignore, c.Explicit, c.DevDeps), t.fvList(c.All), t.strList(c.IgnoreAfter), t.strList(c.Kept))
}

// ---- depth and severity filters on a real analysis

type GraphCase struct {
	Kind        string   `json:"kind"`
	Ignore      []string `json:"ignore"`
	Explicit    []string `json:"explicit"`
	DevDeps     bool     `json:"dev_deps"`
	MinSeverity float64  `json:"min_severity"`
	MaxDepth    int      `json:"max_depth"`
	NumNodes    int      `json:"num_nodes"`
	Edges       [][2]int `json:"edges"`
	All         []FV     `json:"all"`
}

func graphFromAnalysis(o Opts, a Analysis) *GraphCase {
	ca := canonAnalysis(a, o.Ignore)
	return &GraphCase{Kind: "graph", Ignore: o.Ignore, Explicit: o.Explicit, DevDeps: o.DevDeps, MinSeverity: o.MinSeverity,
		MaxDepth: o.MaxDepth, NumNodes: a.NumNodes, Edges: a.Edges, All: ca.All}
}

func scoreList(xs []*int64) string {
	items := make([]string, len(xs))
	for i, x := range xs {
		if x == nil {
			items[i] = "None"
		} else {
			items[i] = fmt.Sprintf("(Some (%d)%%Z)", *x)
		}
	}
	return coqfmt.List(items)
}

func intList(xs []int, z bool) string {
	items := make([]string, len(xs))
	for i, x := range xs {
		if z {
			items[i] = fmt.Sprintf("(%d)%%Z", x)
		} else {
			items[i] = fmt.Sprintf("%d", x)
		}
	}
	return coqfmt.List(items)
}

func (c *GraphCase) coq() string {
	col := newCollector()
	col.fvs(c.All)
	col.s(c.Ignore...)
	col.s(c.Explicit...)
	t := col.build()
	edges := make([]string, len(c.Edges))
	for i, e := range c.Edges {
		edges[i] = fmt.Sprintf("(%d,%d)", e[0], e[1])
	}
	vs := make([]string, len(c.All))
	for i, v := range c.All {
		vs[i] = fmt.Sprintf("(Build_gvuln %s %s %v %s %s %s %s, Build_gobs %v %v %v %s)",
			t.str(v.ID), t.strList(v.Aliases), v.DevOnly, scoreList(v.Top), scoreList(v.Aff), intList(v.Nodes, false), t.pkgs(v.Packages),
			v.SevOK, v.DepthOK, v.Matched, intList(v.RootDist, true))
	}
	return fmt.Sprintf("(Build_gcase %s (Build_thresholds (%d)%%Z (%d)%%Z) %d%%nat %s %s)",
		t.opts(c.Ignore, c.Explicit, c.DevDeps), int64(math.Round(10*c.MinSeverity)), c.MaxDepth, c.NumNodes, coqfmt.List(edges), coqfmt.List(vs))
}

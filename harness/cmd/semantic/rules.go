package main

// Canonical-rule oracle: pairs whose expected result is known BY CONSTRUCTION from the ecosystem's
// published ordering rules. Nothing here looks at the Coq model or at the implementation: the expected
// sign is decided by the way the two strings are built (numeric order by math/big on freshly drawn
// numbers, documented keyword ladders, documented equivalences of separators / spellings / padding).
//
// Sources: semver.org 2.0.0 section 11; NuGet "Package versioning"; Gem::Version documentation;
// PEP 440 (normalisation + "Summary of permitted suffixes and relative ordering"); rpm-version(7)/rpmvercmp;
// deb-version(7); Maven POM reference "Version Order Specification"; apk-tools apk-package(5) + version.c;
// PHP version_compare + composer normalisation; R package_version.

import (
	"math/big"
	"strings"
)

type ruleCase struct {
	a, b   string
	expect string // "Lt" | "Eq" | "Gt": published order of a relative to b
	rule   string
}

// two fresh numbers with x < y (as integers), of assorted lengths up to 40 digits, possibly with leading zeros on
// request; the order is decided by math/big.
func (g *gen) orderedNums() (string, string) {
	for {
		var x, y string
		switch g.r.Intn(7) {
		case 0: // same length, long
			n := 20 + g.r.Intn(21)
			x, y = g.digits(n), g.digits(n)
		case 1: // different lengths, both long: the shorter is smaller although it may be ASCII-greater
			n := 20 + g.r.Intn(15)
			x, y = "9"+g.digits(n-1), "1"+g.digits(n+g.r.Intn(5))
		case 2: // around 2^63 / 2^64
			x, y = g.pick("9223372036854775807", "18446744073709551615", "99999999999999999999"), g.pick("18446744073709551616", "100000000000000000000", "36893488147419103232")
		case 3: // small against long
			x, y = g.digits(1+g.r.Intn(3)), g.digits(20+g.r.Intn(10))
		case 6: // a machine-word boundary against a value well below it: [2^63, 2^64) and [2^31, 2^32) wrap in int64 / int32
			x = g.pick("0", "5", g.digits(1+g.r.Intn(18)), "9223372036854775807", "2147483647")
			y = g.pick("9223372036854775808", "9223372036854775809", "18446744073709551615", "1"+g.digits(19)[:1]+g.digits(18), "2147483648", "4294967295", "4294967296")
			if by, _ := new(big.Int).SetString(y, 10); by.BitLen() > 64 {
				y = "9223372036854775808"
			}
		case 4: // 9 vs 10 style
			x, y = g.pick("9", "2", "99", "19"), g.pick("10", "11", "100", "20")
		default:
			x, y = g.digits(1+g.r.Intn(4)), g.digits(1+g.r.Intn(4))
		}
		bx, _ := new(big.Int).SetString(x, 10)
		by, _ := new(big.Int).SetString(y, 10)
		switch bx.Cmp(by) {
		case -1:
			return x, y
		case 1:
			return y, x
		}
	}
}

// a number and the same number written with leading zeros
func (g *gen) zeroPadded() (string, string) {
	n := g.pick("1", "7", "10", "11", "101", g.digits(2+g.r.Intn(20)))
	return n, g.pick("0", "00", "000") + n
}

func lt(a, b, rule string) ruleCase { return ruleCase{a, b, "Lt", rule} }
func eq(a, b, rule string) ruleCase { return ruleCase{a, b, "Eq", rule} }

// ascending chain -> every ordered pair
func chain(rule string, vs ...string) []ruleCase {
	var out []ruleCase
	for i := range vs {
		for j := i + 1; j < len(vs); j++ {
			out = append(out, lt(vs[i], vs[j], rule))
		}
	}
	return out
}

// equivalence class -> every pair
func class(rule string, vs ...string) []ruleCase {
	var out []ruleCase
	for i := range vs {
		for j := i + 1; j < len(vs); j++ {
			out = append(out, eq(vs[i], vs[j], rule))
		}
	}
	return out
}

// publishedChains: the ordering chains printed in each ecosystem's own documentation (fixed, run on every shard).
func publishedChains(kind string) []ruleCase {
	var out []ruleCase
	add := func(cs []ruleCase) { out = append(out, cs...) }
	switch kind {
	case "semver", "nuget":
		add(chain("semver.org 11.4 example chain", "1.0.0-alpha", "1.0.0-alpha.1", "1.0.0-alpha.beta", "1.0.0-beta", "1.0.0-beta.2", "1.0.0-beta.11", "1.0.0-rc.1", "1.0.0"))
		add(chain("semver.org 11.2 example chain", "1.0.0", "2.0.0", "2.1.0", "2.1.1"))
		add(class("semver.org 10: build metadata ignored", "1.0.0", "1.0.0+20130313144700", "1.0.0+exp.sha.5114f85"))
		if kind == "nuget" {
			add(class("NuGet: pre-release labels are case-insensitive", "1.0.0-BETA", "1.0.0-beta", "1.0.0-Beta"))
			add(chain("NuGet: fourth component", "1.0.0", "1.0.0.1", "1.0.0.2", "1.0.1"))
			add(class("NuGet: missing components are zero", "1.0", "1.0.0", "1.0.0.0"))
		}
	case "rubygems":
		add(chain("Gem::Version: prerelease before release", "1.0.a", "1.0.b1", "1.0.b2", "1.0.rc1", "1.0", "1.0.1", "1.1.a", "1.1"))
		add(class("Gem::Version: trailing zeros", "1", "1.0", "1.0.0"))
		add(chain("Gem::Version: numeric segments", "0.9", "0.10", "0.11", "1.0"))
	case "pypi":
		add(chain("PEP 440 summary of permitted suffixes and relative ordering",
			"1.dev0", "1.0.dev456", "1.0a1", "1.0a2.dev456", "1.0a12.dev456", "1.0a12", "1.0b1.dev456", "1.0b2", "1.0b2.post345.dev456",
			"1.0b2.post345", "1.0rc1.dev456", "1.0rc1", "1.0", "1.0+abc.5", "1.0+abc.7", "1.0+5", "1.0.post456.dev34", "1.0.post456", "1.0.15", "1.1.dev1"))
		add(chain("PEP 440 epochs", "1.0", "2013.10", "2014.04", "1!1.0", "1!1.1", "1!2.0"))
		add(class("PEP 440 normalisation: spellings", "1.0a1", "1.0alpha1", "1.0-a1", "1.0.a.1", "1.0A1", "1.0_alpha_1"))
		add(class("PEP 440 normalisation: post releases", "1.0.post1", "1.0-1", "1.0post1", "1.0-post1", "1.0.r1", "1.0.rev1"))
		add(class("PEP 440 normalisation: rc spellings", "1.0rc1", "1.0c1", "1.0pre1", "1.0preview1", "1.0-rc.1"))
		add(class("PEP 440: release trailing zeros", "1.0", "1", "1.0.0", "v1.0"))
		add(class("PEP 440 local version labels: separators normalise to '.'", "1.0+ubuntu-1", "1.0+ubuntu.1", "1.0+ubuntu_1"))
	case "redhat":
		add(chain("rpm-version(7): tilde and caret", "1.0~rc1", "1.0~rc1^git1", "1.0~rc2", "1.0", "1.0^git1", "1.0^git2", "1.0.1"))
		add(chain("rpmvercmp: digits beat letters, numeric value", "1.0a", "1.0.1", "1.0.2", "1.0.10"))
		add(class("rpmvercmp: separators and leading zeros", "1.0.1", "1_0_1", "1.0.01", "1+0+1"))
		add(chain("rpm: epoch first", "9.9-9", "1:0.1-1", "2:0.0-1"))
	case "debian":
		add(chain("deb-version(7): tilde", "1.0~~", "1.0~~a", "1.0~", "1.0", "1.0a"))
		add(chain("deb-version(7): letters before non-letters, numbers by value", "1.0a", "1.0+", "1.0.1", "1.0.2", "1.0.10"))
		add(chain("deb-version(7): epoch", "9.9", "1:0.1", "2:0.0"))
		add(class("deb-version(7): absent revision / epoch", "1.0", "0:1.0", "1.0-0"))
	case "maven":
		add(chain("Maven version order specification: qualifier ladder", "1-alpha", "1-beta", "1-milestone", "1-rc", "1-snapshot", "1", "1-sp"))
		add(chain("Maven version order specification", "1-sp", "1-foo", "1-1", "1.1", "1.2", "1.10", "2"))
		add(class("Maven: null values", "1", "1.0", "1.0.0", "1-ga", "1-final", "1-release", "1.ga"))
		add(class("Maven: aliases", "1-rc", "1-cr", "1-RC"))
		add(class("Maven: shorthand before a digit", "1-a1", "1-alpha-1", "1-ALPHA1"))
	case "alpine":
		add(chain("apk suffix order", "1.2_alpha", "1.2_beta", "1.2_pre", "1.2_rc", "1.2", "1.2_cvs", "1.2_cvs1", "1.2_svn", "1.2_git", "1.2_hg", "1.2_p"))
		add(chain("apk: letters, numbers, revisions", "1.2", "1.2-r1", "1.2-r2", "1.2-r10", "1.2a", "1.2b", "1.2.1", "1.3", "1.10"))
		add(chain("apk: suffix numbers", "1.2_rc1", "1.2_rc2", "1.2_rc10", "1.2", "1.2_p1", "1.2_p2"))
	case "packagist":
		add(chain("PHP version_compare special forms", "1.0-dev", "1.0-alpha1", "1.0-alpha2", "1.0-beta1", "1.0-RC1", "1.0", "1.0-p1"))
		add(chain("version_compare numbers", "1.0", "1.0.1", "1.1", "1.9", "1.10", "2.0"))
		add(class("composer: spellings", "1.0-RC1", "1.0RC1", "1.0-rc1", "v1.0-RC1", "1.0.rc.1"))
		add(class("composer: alpha/beta shorthands", "1.0-alpha1", "1.0-a1", "1.0a1"))
		add(class("version_compare: '-', '_' and '+' are all separators", "1.0-RC1", "1.0_RC1", "1.0+RC1", "1.0.RC.1"))
		add(class("version_compare: separators between numbers", "1.0.1", "1.0-1", "1.0_1", "1.0+1"))
	case "cran":
		add(chain("R package_version", "0.9", "0.10", "1.0", "1.0.0", "1.0.1", "1.1", "1.10"))
		add(class("R package_version: '-' and '.' are the same separator", "1.0-1", "1.0.1", "1-0-1"))
	}
	return out
}

// ruleCases: freshly drawn pairs per shard, expected sign known by construction.
func ruleCases(kind string, g *gen, n int) []ruleCase {
	var out []ruleCase
	base := func() string { return g.pick("1.0.0", "1.2.3", "0.1.0", "2.0.0", "10.20.30") }
	for k := 0; k < n; k++ {
		x, y := g.orderedNums()
		p, zp := g.zeroPadded()
		switch kind {
		case "semver", "nuget":
			b := base()
			tag := g.pick("rc", "alpha", "beta", "x", "pre")
			switch k % 8 {
			case 0:
				out = append(out, lt(b+"-"+tag+"."+x, b+"-"+tag+"."+y, "semver 11.4.1: numeric identifiers compare numerically (any length)"))
			case 1:
				out = append(out, lt(b+"-"+x, b+"-"+y, "semver 11.4.1: numeric identifiers compare numerically (any length)"))
			case 2:
				out = append(out, lt(b+"-"+y, b+"-"+tag, "semver 11.4.3: numeric identifiers are lower than alphanumeric ones"))
			case 3:
				out = append(out, lt(b+"-"+tag+"."+x, b+"-"+tag+"."+x+"."+g.pick("0", "1", "a"), "semver 11.4.4: a larger set of pre-release fields is higher"))
			case 4:
				out = append(out, lt(b+"-"+tag+"."+y, b, "semver 11.3: pre-release is lower than the release"))
			case 5:
				out = append(out, lt("1."+x+".0", "1."+y+".0", "semver 11.2: major.minor.patch compare numerically (any length)"))
			case 6:
				out = append(out, eq(b+"-"+tag+"."+x, b+"-"+tag+"."+x+"+build."+y, "semver 10: build metadata is ignored"))
			case 7:
				out = append(out, lt(b+"-"+tag+"."+x+".zz", b+"-"+tag+"."+y+".a", "semver 11.4: first differing identifier decides, numerically"))
			}
			if kind == "nuget" && k%4 == 0 {
				out = append(out, eq(b+"-"+strings.ToUpper(tag)+"."+x, b+"-"+tag+"."+x, "NuGet: pre-release labels are case-insensitive"))
				out = append(out, lt("1.0.0."+x, "1.0.0."+y, "NuGet: fourth component compares numerically"))
			}
		case "rubygems":
			switch k % 6 {
			case 0:
				out = append(out, eq("1."+p, "1."+zp, "Gem::Version: segments are integers, leading zeros are irrelevant"))
			case 1:
				out = append(out, lt("1."+x, "1."+y, "Gem::Version: numeric segments compare as integers (any length)"))
			case 2:
				out = append(out, eq("1."+p, "1."+p+g.pick(".0", ".0.0"), "Gem::Version: trailing zero segments are irrelevant"))
			case 3:
				out = append(out, lt("1.0."+g.pick("a", "b", "rc", "pre")+"."+y, "1.0", "Gem::Version: a prerelease (letter segment) is lower than the release"))
			case 4:
				out = append(out, lt("1.0.a."+x, "1.0.a."+y, "Gem::Version: numeric segments after a prerelease letter compare as integers"))
			case 5:
				out = append(out, lt("1.0"+x, "1."+y, "Gem::Version: leading zeros do not add magnitude"))
			}
		case "pypi":
			sepA, sepB := g.pick("-", "_", "."), g.pick("-", "_", ".")
			lab := g.pick("ubuntu", "cu118", "deb", "local", "abc")
			switch k % 10 {
			case 0:
				out = append(out, eq("1.0+"+lab+sepA+p, "1.0+"+lab+sepB+p, "PEP 440: local version separators '-', '_', '.' are equivalent"))
			case 1:
				out = append(out, lt("1.0+"+lab+sepA+x, "1.0+"+lab+sepB+y, "PEP 440: numeric local segments compare numerically, whatever the separator"))
			case 2:
				out = append(out, lt("1.0+"+lab, "1.0+"+x, "PEP 440: a numeric local segment is greater than an alphanumeric one"))
			case 3:
				out = append(out, lt("1.0+"+lab+sepA+x, "1.0+"+lab+sepA+x+sepB+"1", "PEP 440: more local segments (same prefix) is greater"))
			case 4:
				out = append(out, lt(y+".0", "1!"+x+".0", "PEP 440: the epoch is compared first"))
			case 5:
				out = append(out, lt("1.0.dev"+y, "1.0a"+x, "PEP 440: dev release of the final < pre-release"))
			case 6:
				out = append(out, lt("1.0"+g.pick("a", "b", "rc")+y, "1.0", "PEP 440: pre-release < release"))
			case 7:
				out = append(out, lt("1.0", "1.0.post"+x, "PEP 440: release < post-release"))
			case 8:
				out = append(out, lt("1.0.post"+x, "1.0.post"+y, "PEP 440: post numbers compare numerically"))
			case 9:
				out = append(out, lt("1."+x, "1."+y, "PEP 440: release segments compare numerically (any length)"))
			}
		case "redhat":
			s1, s2 := g.pick("rc1", "beta", "1", "git"), g.pick("git1", "1", "post", "20240101")
			b := g.pick("1.0", "2.4.1", "0.9", "3")
			switch k % 8 {
			case 0:
				out = append(out, lt(b+"~"+s1, b, "rpmvercmp: '~' sorts before everything, even the end of the string"))
			case 1:
				out = append(out, lt(b, b+"^"+s2, "rpmvercmp: '^' sorts after the end of the string"))
			case 2:
				out = append(out, lt(b+"^"+s2, b+"."+g.pick("0", "1", "a"), "rpmvercmp: '^' sorts before any further segment"))
			case 3:
				out = append(out, lt(b+"~"+s1, b+"^"+s2, "rpmvercmp: '~' against '^' at the same position: tilde is older"))
			case 4:
				out = append(out, lt("1."+x, "1."+y, "rpmvercmp: digit runs compare numerically (any length)"))
			case 5:
				out = append(out, eq("1."+p, "1."+zp, "rpmvercmp: leading zeros are ignored"))
			case 6:
				out = append(out, lt("1."+g.pick("a", "rc", "z"), "1."+x, "rpmvercmp: a digit run is newer than a letter run"))
			case 7:
				out = append(out, lt(b+"-1~"+s1, b+"-1^"+s2, "rpmvercmp (release): '~' against '^'"))
			}
		case "debian":
			b := g.pick("1.0", "2.4.1", "0.9")
			switch k % 7 {
			case 0:
				out = append(out, lt(b+"~"+g.pick("rc1", "", "~", "1"), b, "deb-version: '~' sorts before everything, even the end"))
			case 1:
				out = append(out, lt("1."+x, "1."+y, "deb-version: digit runs compare numerically (any length)"))
			case 2:
				out = append(out, eq("1."+p, "1."+zp, "deb-version: leading zeros are irrelevant"))
			case 3:
				out = append(out, lt(y+".0", "1:"+x+".0", "deb-version: the epoch is compared first"))
			case 4:
				out = append(out, lt(b+g.pick("a", "z", "rc"), b+g.pick("+", ".")+"1", "deb-version: letters sort before non-letters"))
			case 5:
				out = append(out, lt(b+"-"+x, b+"-"+y, "deb-version: revisions compare numerically"))
			case 6:
				out = append(out, lt(b+"~~", b+"~", "deb-version: '~~' before '~'"))
			}
		case "maven":
			switch k % 6 {
			case 0:
				out = append(out, lt("1."+x, "1."+y, "Maven: numeric tokens compare numerically (any length)"))
			case 1:
				out = append(out, eq("1."+p, "1."+zp, "Maven: leading zeros are removed"))
			case 2:
				out = append(out, lt("1-"+g.pick("alpha", "beta", "milestone", "rc", "snapshot")+"-"+y, "1", "Maven: pre-release qualifiers are lower than the release"))
			case 3:
				out = append(out, lt("1-rc-"+x, "1-rc-"+y, "Maven: numbers after a qualifier compare numerically"))
			case 4:
				out = append(out, eq("1."+p+"-"+g.pick("ga", "final", "RELEASE"), "1."+p, "Maven: ga / final / release are null"))
			case 5:
				out = append(out, lt("1-"+g.pick("alpha", "beta", "rc")+"-1", "1-"+x, "Maven: '-qualifier' is lower than '-number'"))
			}
		case "alpine":
			switch k % 6 {
			case 0:
				out = append(out, lt("1."+x, "1."+y, "apk: number components compare numerically (any length, no leading zero)"))
			case 1:
				out = append(out, lt("1.2_rc"+x, "1.2_rc"+y, "apk: suffix numbers compare numerically"))
			case 2:
				out = append(out, lt("1.2-r"+x, "1.2-r"+y, "apk: package revisions compare numerically"))
			case 3:
				out = append(out, lt("1.2_"+g.pick("alpha", "beta", "pre", "rc")+y, "1.2", "apk: pre-release suffixes are lower than no suffix"))
			case 4:
				out = append(out, lt("1.2", "1.2_"+g.pick("svn", "git", "hg", "p")+x, "apk: post-release suffixes are higher than no suffix"))
			case 5:
				out = append(out, lt("1.2_rc"+y, "1.2"+g.pick("a", "b", "z"), "apk: a letter is higher than a pre-release suffix"))
			}
		case "packagist":
			switch k % 5 {
			case 0:
				out = append(out, lt("1."+x, "1."+y, "version_compare: numbers compare numerically (any length)"))
			case 1:
				out = append(out, lt("1.0-"+g.pick("dev", "alpha", "beta", "RC")+y, "1.0", "version_compare: dev/alpha/beta/RC are lower than the release"))
			case 2:
				out = append(out, lt("1.0", "1.0-p"+g.pick("1", "2", "10"), "version_compare: patch level is higher than the release"))
				out = append(out, lt("1."+x, "1."+x+"."+y, "version_compare: a further numeric component makes the version greater (any length)"))
			case 3:
				out = append(out, lt("1.0-beta"+g.pick("1", "2", "10"), "1.0-RC"+g.pick("1", "2"), "version_compare: beta < RC"))
			case 4:
				out = append(out, eq("1."+p+"-RC1", "1."+p+"RC1", "composer: separator before a qualifier is optional"))
			}
		case "cran":
			switch k % 4 {
			case 0:
				out = append(out, lt("1."+x, "1."+y, "package_version: components compare numerically (any length)"))
			case 1:
				out = append(out, eq("1."+p+"-2", "1."+zp+".2", "package_version: '-' equals '.', leading zeros irrelevant"))
			case 2:
				out = append(out, lt("1."+p, "1."+p+"."+g.pick("0", "1"), "package_version: the longer version with equal prefix is greater"))
			case 3:
				out = append(out, lt("1-"+x, "1."+y, "package_version: numeric across separators"))
			}
		}
	}
	return out
}

// markers: strings that are always in the pool of an ecosystem shard, so that every special marker meets every
// other one in the all-pairs / all-triples oracle.
var markers = map[string][]string{
	"semver":    {"1.0.0-rc.99999999999999999999", "1.0.0-rc.100000000000000000000", "1.0.0-rc.9", "1.0.0-rc.10", "1.0.0-rc", "1.0.0-rc.x", "1.0.0-9", "1.0.0", "1.0.0+b", "1.0.0-01"},
	"nuget":     {"1.0.0-rc.99999999999999999999", "1.0.0-RC.100000000000000000000", "1.0.0-rc.9", "1.0.0-Rc.10", "1.0.0-rc", "1.0.0.0-RC", "1.0.0", "1.0.0.1", "1.0.0+b"},
	"rubygems":  {"1.01", "1.1", "1.010", "1.11", "1.1.0", "1.00", "1.0.a.010", "1.0.a.11", "1.0.a", "1.99999999999999999999", "1.100000000000000000000"},
	"pypi":      {"1.0+ubuntu-1", "1.0+ubuntu.1", "1.0+ubuntu_1", "1.0+ubuntu-2", "1.0+ubuntu.10", "1.0+ubuntu", "1.0+5", "1.0+1-0", "1.0+1.0", "1.0", "1.0.post1", "1.0.dev1", "1.0a1", "1!0.5", "1.0+010"},
	"redhat":    {"1.0~rc1", "1.0", "1.0^git1", "1.0~", "1.0^", "1.0~rc1^git1", "1.0^git1~rc1", "1.0-1~pre", "1.0-1^post", "1.0-1", "1.0.1", "1.0a", "1.0~~", "1.0^^"},
	"debian":    {"1.0~rc1", "1.0", "1.0~", "1.0~~", "1.0+b1", "1.0a", "1.0-1", "1.0-1~bpo1", "1:0.9", "1.0.1", "1.01", "1.0-0"},
	"maven":     {"1", "1-rc", "1-sp", "1-1", "1.1", "1-alpha-1", "1-a1", "1.0.1", "1-foo", "1.01", "1-SNAPSHOT", "1-ga"},
	"alpine":    {"1.2", "1.2_cvs", "1.2_rc1", "1.2_p1", "1.2-r0", "1.2-r1", "1.2a", "1.2_cvs1", "1.2_alpha", "1.2.0", "1.02", "1.10", "1.2_rc1-r1"},
	"packagist": {"1", "1.5", "1.99999999999999999999", "1.0", "1.0-dev", "1.0-RC1", "1.0rc1", "1.0-p1", "1.0-beta2", "1.0.0", "1.0.1", "v1.0", "1.10", "1.9"},
	"cran":      {"", "1.a", "1.0", "1.0-1", "1.0.1", "1-0-1", "1.01", "1.1", "1.10", "1.9", "1.0.0", "0.99999999999999999999", "0.100000000000000000000"},
}


// ---------------------------------------------------------------- systematic rule classes
// Derived from the PUBLISHED tables and grammars (hard-coded here from the documentation, never from the code or
// from Generated_Tables.v): every table entry x {directly followed by a digit, followed by each separator, at the
// end, upper / lower case} and the boundary characters of every character class, so that a change to a single table
// entry or class boundary shows up as a rule-level failure.

func cmpSign(a, b int) string {
	switch {
	case a < b:
		return "Lt"
	case a > b:
		return "Gt"
	}
	return "Eq"
}

func withSign(a, b, sign, rule string) ruleCase { return ruleCase{a, b, sign, rule} }

func upperFirst(s string) string { return strings.ToUpper(s[:1]) + s[1:] }

func systematicRules(kind string) []ruleCase {
	var out []ruleCase
	add := func(rc ...ruleCase) { out = append(out, rc...) }
	switch kind {
	case "debian":
		// deb-version(7) / dpkg order(): '~' before everything even the end; then the end; then letters (ASCII order);
		// then every other character (ASCII order)
		order := func(c string) int {
			switch {
			case c == "~":
				return -1
			case c == "":
				return 0
			case (c[0] >= 'A' && c[0] <= 'Z') || (c[0] >= 'a' && c[0] <= 'z'):
				return int(c[0])
			}
			return int(c[0]) + 256
		}
		chars := []string{"~", "", "A", "B", "Y", "Z", "a", "b", "y", "z", "+", "-", ".", ":"}
		for _, prefix := range []string{"1.0", "2.4x", "3.1Z", "0.9a"} {
			for i, c1 := range chars {
				for _, c2 := range chars[i+1:] {
					if order(c1) == order(c2) {
						continue
					}
					if (c1 == "" || c2 == "") && prefix[len(prefix)-1] >= '0' && prefix[len(prefix)-1] <= '9' {
						continue // "end of the non-digit run" needs a run: only after a letter prefix
					}
					// epoch present so that ':' is legal upstream, revision present so that '-' is legal upstream
					a, b := "1:"+prefix+c1+"1-1", "1:"+prefix+c2+"1-1"
					add(withSign(a, b, cmpSign(order(c1), order(c2)), "deb-version: '~' < end < letters < non-letters, every class boundary ("+c1+" vs "+c2+")"))
				}
			}
		}
		for _, c := range []string{"a", "z", "A", "Z", "m"} { // a letter run that continues vs a non-letter: letter first
			for _, n := range []string{"+", ".", "-", ":"} {
				add(lt("1:1.0"+c+"-1", "1:1.0"+n+"b1-1", "deb-version: letters sort before non-letters"))
				add(lt("1:2.4x"+c+"1-1", "1:2.4x"+n+"dfsg1-1", "deb-version: letters sort before non-letters (inside a run)"))
			}
		}
	case "alpine":
		pre := []string{"alpha", "beta", "pre", "rc"}
		post := []string{"cvs", "svn", "git", "hg", "p"}
		all := append(append([]string{}, pre...), post...)
		rank := map[string]int{}
		for i, s := range pre {
			rank[s] = i - len(pre) // negative: below "no suffix" (0)
		}
		for i, s := range post {
			rank[s] = i + 1
		}
		bases := []string{"1.0", "2.3.4"}
		nums := []string{"", "1", "9"}
		for i, s1 := range all {
			for _, n1 := range nums {
				base := bases[(i+len(n1))%2]
				x := base + "_" + s1 + n1
				// one suffix against none, every table entry, with and without number, with a revision
				add(withSign(x, base, cmpSign(rank[s1], 0), "apk: suffix "+s1+" against no suffix"))
				add(withSign(x+"-r3", base+"-r3", cmpSign(rank[s1], 0), "apk: suffix "+s1+" against no suffix (with -r)"))
			}
			for j, s2 := range all {
				base := bases[(i+j)%2]
				x := base + "_" + s1 + nums[(i+j)%3]
				// a second suffix: compared after the first; pre-release class below "nothing", post-release above
				add(withSign(x+"_"+s2+"1", x, cmpSign(rank[s2], 0), "apk: second suffix "+s2+" against none"))
				add(lt(x+"_"+s2+"9", x+"_"+s2+"10", "apk: number of the second suffix compares numerically"))
				add(eq(x+"_"+s2+"2", x+"_"+s2+"02", "apk: suffix numbers are numbers (leading zeros)"))
				add(lt(x+"_"+s2+"1-r9", x+"_"+s2+"1-r10", "apk: -r after several suffixes compares numerically"))
			}
		}
		for i, s1 := range all { // table order, pairwise, in first, second and third position
			for j, s2 := range all[i+1:] {
				base := bases[(i+j)%2]
				add(lt(base+"_"+s1, base+"_"+s2, "apk suffix order: "+s1+" < "+s2))
				add(lt(base+"_"+s1+"7", base+"_"+s2+"1", "apk suffix order decides before the number: "+s1+" < "+s2))
				add(lt(base+"_rc1_"+s1, base+"_rc1_"+s2, "apk suffix order in second position: "+s1+" < "+s2))
				add(lt(base+"_alpha_p1_"+s1+"2", base+"_alpha_p1_"+s2+"1", "apk suffix order in third position: "+s1+" < "+s2))
			}
		}
	case "maven":
		// Maven version order specification: alpha < beta < milestone < rc = cr < snapshot < "" = ga = final = release < sp
		// < any other qualifier (lexical) < numbers; a / b / m are alpha / beta / milestone ONLY when directly followed by a digit
		ladder := [][]string{{"alpha"}, {"beta"}, {"milestone"}, {"rc", "cr"}, {"snapshot"}, {"", "ga", "final", "release"}, {"sp"}}
		rel := func(q string) string {
			if q == "" {
				return "1"
			}
			return "1-" + q
		}
		for i, ci := range ladder {
			for _, q := range ci {
				for _, q2 := range ci {
					add(eq(rel(q), rel(q2), "Maven: equivalent qualifiers "+q+" = "+q2))
				}
				if q != "" {
					add(eq(rel(q), rel(strings.ToUpper(q)), "Maven: qualifiers are case-insensitive ("+q+")"))
					add(eq(rel(q), rel(upperFirst(q)), "Maven: qualifiers are case-insensitive ("+q+")"))
					add(lt(rel(q), "1-zzz", "Maven: known qualifiers are below unknown ones ("+q+")"))
					add(lt(rel(q), "1-1", "Maven: qualifiers are below numbers ("+q+")"))
					add(lt(rel(q)+"-1", rel(q)+"-2", "Maven: number after the qualifier "+q))
					add(lt(rel(q)+"-9", rel(q)+"-10", "Maven: number after the qualifier "+q+" compares numerically"))
				}
				for _, cj := range ladder[i+1:] {
					for _, r := range cj {
						add(lt(rel(q), rel(r), "Maven qualifier ladder: "+q+" < "+r))
						if i != 5 && q != "" && r != "" { // (ga / final / release are null values: trimmed before a hyphen)
							add(lt("2.1-"+q+"-5", "2.1-"+r+"-1", "Maven qualifier ladder decides before the number: "+q+" < "+r))
						}
					}
				}
			}
		}
		for _, sl := range [][2]string{{"a", "alpha"}, {"b", "beta"}, {"m", "milestone"}} {
			short, long := sl[0], sl[1]
			for _, v := range []string{"1", "1.0", "2.0"} {
				for _, s := range []string{short, strings.ToUpper(short)} {
					// directly followed by a digit: the shorthand
					add(eq(v+"-"+s+"1", v+"-"+long+"-1", "Maven: '"+short+"' directly followed by a digit is "+long))
					add(eq(v+s+"1", v+"-"+long+"-1", "Maven: '"+short+"' directly followed by a digit is "+long+" (no separator before)"))
					add(lt(v+"-"+s+"1", v, "Maven: "+long+" shorthand is a pre-release"))
					// followed by a separator, or at the end: an ordinary unknown qualifier, above the release and above sp
					for _, sep := range []string{"-", "."} {
						add(lt(v, v+"-"+s+sep+"1", "Maven: a lone '"+short+"' token followed by a separator is NOT "+long+" (unknown qualifier, above the release)"))
						add(lt(v+"-"+long+"-1", v+"-"+s+sep+"1", "Maven: a lone '"+short+"' token followed by a separator is NOT "+long))
						add(lt(v+"-"+s+"1", v+"-"+s+sep+"1", "Maven: '"+short+"1' (shorthand) is below '"+short+sep+"1' (unknown qualifier)"))
						add(lt(v+"-rc-1", v+"-"+s+sep+"2", "Maven: a lone '"+short+"' token is above rc"))
						add(lt(v+"-sp-1", v+"-"+s+sep+"2", "Maven: a lone '"+short+"' token is above sp"))
					}
					add(lt(v, v+"-"+s, "Maven: a lone '"+short+"' at the end is an unknown qualifier, above the release"))
					add(lt(v+"-"+long, v+"-"+s, "Maven: a lone '"+short+"' at the end is NOT "+long))
				}
			}
		}
	case "pypi":
		// PEP 440 normalisation: every spelling x every separator position x case, with and without number
		type sp struct{ spelled, canon string }
		pres := []sp{{"a", "a"}, {"alpha", "a"}, {"b", "b"}, {"beta", "b"}, {"c", "rc"}, {"rc", "rc"}, {"pre", "rc"}, {"preview", "rc"}}
		posts := []sp{{"post", "post"}, {"rev", "post"}, {"r", "post"}}
		seps := []string{"", ".", "-", "_"}
		for _, grp := range []struct {
			name string
			xs   []sp
			dot  string
		}{{"pre-release", pres, ""}, {"post-release", posts, "."}, {"dev-release", []sp{{"dev", "dev"}}, "."}} {
			for _, x := range grp.xs {
				for _, s1 := range seps {
					for _, s2 := range seps {
						ws := []string{x.spelled}
						if s1 == s2 {
							ws = append(ws, strings.ToUpper(x.spelled))
						}
						for _, w := range ws {
							add(eq("1.0"+s1+w+s2+"2", "1.0"+grp.dot+x.canon+"2", "PEP 440 "+grp.name+" spelling '"+x.spelled+"' with separators normalises to "+x.canon))
							add(eq("1.0"+s1+w, "1.0"+grp.dot+x.canon+"0", "PEP 440 "+grp.name+" '"+x.spelled+"' without a number means 0"))
						}
					}
				}
				add(lt("1.0"+x.spelled+"9", "1.0"+x.spelled+"10", "PEP 440 "+grp.name+" numbers compare numerically ("+x.spelled+")"))
			}
		}
		add(chain("PEP 440 pre-release phases", "1.0a5", "1.0b1", "1.0rc1", "1.0")...)
		add(chain("PEP 440 pre-release phases (long spellings)", "1.0alpha5", "1.0beta1", "1.0preview1", "1.0")...)
		for _, a := range []string{"-", "_", "."} { // local labels: every separator pair, numeric segments of different digit counts
			for _, b := range []string{"-", "_", "."} {
				add(eq("1.0+x"+a+"1", "1.0+x"+b+"1", "PEP 440 local separators are equivalent"))
				add(lt("1.0+x"+a+"9", "1.0+x"+b+"10", "PEP 440 numeric local segments compare numerically"))
				add(lt("1.0+x"+a+"9", "1.0+x"+b+"9"+a+"0", "PEP 440 more local segments is greater"))
			}
		}
		for _, c := range []string{"a", "z", "0a", "a0"} {
			add(lt("1.0+"+c, "1.0+0", "PEP 440 numeric local segment above alphanumeric ("+c+")"))
			add(eq("1.0+"+c, "1.0+"+strings.ToUpper(c), "PEP 440 local labels are case-insensitive"))
		}
	case "packagist":
		// PHP version_compare: any other string < dev < alpha = a < beta = b < RC = rc < # (number) < pl = p
		ladder := [][]string{{"dev"}, {"alpha", "a"}, {"beta", "b"}, {"RC", "rc"}, {""}, {"pl", "p", "patch"}}
		form := func(q, sep, n string) string {
			if q == "" {
				return "1.0"
			}
			return "1.0" + sep + q + n
		}
		for i, ci := range ladder {
			for _, q := range ci {
				for _, sep := range []string{"", "-", ".", "_", "+"} {
					for _, q2 := range ci {
						add(eq(form(q, sep, "1"), form(q2, "-", "1"), "version_compare: "+q+" = "+q2+" with every separator"))
					}
					if q != "" {
						add(lt(form(q, sep, "9"), form(q, sep, "10"), "version_compare: number after "+q+" compares numerically"))
					}
					for _, cj := range ladder[i+1:] {
						for _, r := range cj {
							add(lt(form(q, sep, "5"), form(r, sep, "1"), "version_compare special forms: "+q+" < "+r))
						}
					}
				}
			}
		}
	case "redhat":
		// rpmvercmp character classes: separators (anything but alnum ~ ^) are equivalent and ignored; letters < digits
		for _, s1 := range []string{".", "_", "+", ",", "#"} {
			for _, s2 := range []string{".", "_", "+"} {
				add(eq("1"+s1+"2"+s1+"a", "1"+s2+"2"+s2+"a", "rpmvercmp: all separators are equivalent"))
			}
		}
		for _, l := range []string{"a", "z", "A", "Z"} {
			for _, d := range []string{"0", "9", "10"} {
				add(lt("1."+l, "1."+d, "rpmvercmp: a letter segment is older than a digit segment ("+l+" vs "+d+")"))
				add(lt("1."+l+"~", "1."+l, "rpmvercmp: tilde after "+l))
				add(lt("1."+l, "1."+l+"^", "rpmvercmp: caret after "+l))
				add(lt("1."+d+"~x", "1."+d+"^x", "rpmvercmp: tilde below caret after "+d))
			}
		}
		add(chain("rpmvercmp: letters compare by strcmp", "1.A", "1.Z", "1.a", "1.ab", "1.b", "1.z")...)
	case "semver", "nuget":
		// identifiers: [0-9A-Za-z-]; all-digit identifiers are numeric and lower than the others, which compare in ASCII order
		ids := []string{"-", "0a", "9z", "A", "Z", "a", "z", "z-"}
		if kind == "nuget" { // NuGet compares labels case-insensitively: only lower-case representatives are ordered
			ids = []string{"-", "0a", "9z", "a", "z", "z-"}
		}
		for i, a := range ids {
			for _, b := range ids[i+1:] {
				add(lt("1.0.0-x."+a, "1.0.0-x."+b, "semver 11.4.2: alphanumeric identifiers compare in ASCII order ("+a+" < "+b+")"))
			}
			for _, n := range []string{"0", "9", "10", "99999999999999999999"} {
				add(lt("1.0.0-x."+n, "1.0.0-x."+a, "semver 11.4.3: numeric identifier "+n+" below alphanumeric "+a))
			}
		}
	case "rubygems":
		for _, l := range []string{"a", "z", "A", "Z", "pre", "rc"} {
			add(eq("1.0"+l+"1", "1.0."+l+".1", "Gem::Version: a letter/digit boundary is a segment boundary ("+l+")"))
			add(lt("1.0."+l, "1.0", "Gem::Version: letter segment "+l+" makes a prerelease"))
			add(lt("1.0."+l+"9", "1.0."+l+"10", "Gem::Version: numbers after "+l+" compare as integers"))
			add(lt("1.0."+l, "1.0."+l+".1", "Gem::Version: longer prerelease"))
		}
		add(chain("Gem::Version: letter segments compare as strings", "1.0.A", "1.0.Z", "1.0.a", "1.0.b", "1.0.z")...)
	case "cran":
		for _, s1 := range []string{".", "-"} {
			for _, s2 := range []string{".", "-"} {
				add(eq("1"+s1+"2"+s2+"3", "1.2.3", "package_version: separators '.' and '-' are the same"))
				add(lt("1"+s1+"9"+s2+"0", "1"+s2+"10"+s1+"0", "package_version: numeric components"))
			}
		}
	}
	// epoch rules: an absent epoch is epoch 0; the epoch dominates everything else; epochs compare as numbers
	epochRules := func(sep string, versions []string, lower, higher string) {
		for _, v := range versions {
			add(eq(v, "0"+sep+v, "epoch: an absent epoch equals epoch 0"))
			add(eq("0"+sep+v, "00"+sep+v, "epoch: leading zeros in the epoch are irrelevant"))
			add(eq(v, "000"+sep+v, "epoch: an absent epoch equals epoch 000"))
			add(lt(v, "1"+sep+v, "epoch: epoch 1 is above no epoch"))
			add(lt("0"+sep+v, "1"+sep+v, "epoch: epoch 1 is above epoch 0"))
			add(lt("1"+sep+v, "2"+sep+v, "epoch: numeric order"))
			add(lt("9"+sep+v, "10"+sep+v, "epoch: numeric order, not lexical"))
			add(lt("99999999999999999999"+sep+v, "100000000000000000000"+sep+v, "epoch: numeric order for long numbers"))
			add(eq("1"+sep+v, "01"+sep+v, "epoch: leading zeros in the epoch are irrelevant"))
		}
		add(lt(higher, "1"+sep+lower, "epoch: dominates the version (no epoch vs 1)"))
		add(lt("0"+sep+higher, "1"+sep+lower, "epoch: dominates the version (0 vs 1)"))
		add(lt("1"+sep+higher, "2"+sep+lower, "epoch: dominates the version (1 vs 2)"))
		add(lt(lower, "0"+sep+higher, "epoch 0 does not change the order (absent vs 0)"))
		add(lt("0"+sep+lower, higher, "epoch 0 does not change the order (0 vs absent)"))
	}
	switch kind {
	case "redhat":
		epochRules(":", []string{"1.0-1", "1.0", "2.4.1-3.el8", "1.0~rc1-1"}, "1.0-1", "9.9-9")
		add(lt("1.0-1", "0:1.0-2", "epoch: absent epoch equals 0, the release decides"))
		add(lt("0:1.0-1", "1.0-2", "epoch: absent epoch equals 0, the release decides"))
	case "debian":
		epochRules(":", []string{"1.0-1", "1.0", "2.4.1-3ubuntu1", "1.0~rc1-1"}, "1.0-1", "9.9-9")
		add(lt("1.0-1", "0:1.0-2", "epoch: absent epoch equals 0, the revision decides"))
		add(lt("0:1.0-1", "1.0-2", "epoch: absent epoch equals 0, the revision decides"))
	case "pypi":
		epochRules("!", []string{"1.0", "1.0.post1", "2.4.1rc1", "1.0.dev3"}, "1.0", "2024.12")
	}
	return out
}

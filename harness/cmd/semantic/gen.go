package main

import (
	"bufio"
	"unicode"
	"math/rand"
	"os"
	"path/filepath"
	"strings"
)

// ---------------------------------------------------------------- building blocks

type gen struct{ r *rand.Rand }

func (g *gen) pick(xs ...string) string { return xs[g.r.Intn(len(xs))] }
func (g *gen) chance(p float64) bool    { return g.r.Float64() < p }

func (g *gen) digits(n int) string {
	b := make([]byte, n)
	for i := range b {
		b[i] = byte('0' + g.r.Intn(10))
	}
	if n > 1 && b[0] == '0' {
		b[0] = byte('1' + g.r.Intn(9))
	}
	return string(b)
}

// num: small numbers dominate (so that ties and near-ties happen), plus leading zeros, plus 20-40 digit numbers,
// plus the int64 boundary.
func (g *gen) num() string {
	switch x := g.r.Intn(20); {
	case x < 9:
		return g.pick("0", "1", "2", "3", "9", "10", "11")
	case x < 12:
		return g.pick("00", "01", "010", "001", "09", "000", "02")
	case x < 14:
		return g.digits(20 + g.r.Intn(21))
	case x < 15:
		return g.pick("9223372036854775807", "9223372036854775808", "18446744073709551616", "99999999999999999999", "09223372036854775808")
	case x < 16:
		return "0" + g.digits(20+g.r.Intn(10))
	default:
		return g.digits(1 + g.r.Intn(3))
	}
}

func (g *gen) nums(lo, hi int, sep func() string) string {
	n := lo + g.r.Intn(hi-lo+1)
	var sb strings.Builder
	for i := 0; i < n; i++ {
		if i > 0 {
			sb.WriteString(sep())
		}
		sb.WriteString(g.num())
	}
	return sb.String()
}

func dot() string { return "." }

// mutate applies 1..3 byte-level edits.
func (g *gen) mutate(s string) string {
	b := []byte(s)
	special := []string{".", "-", "+", "_", "~", "^", ":", "!", " ", "\t", "\n", "v", "V", "0", "00", "9", "a", "A", "z", "rc", "RC", "dev",
		"#", "p", "/", "*", "@", "\x00", "\x80", "\xff", "\xc3\xa9", "\xc3\x89", "\u0531", "\u212a", "\u1e9e", "\u0130", "\u03a3", "\u0416", "\u0662", "\uff11", "\u00b2", "\u2163", "\u00a0", "\u3000", "\uff21", "\u0301", "\u200b", "\xe2\x80\x80", "\xc2\x85", "\xc2\xa0", "\xe2", "\xf0\x9f\x98\x80", "\xed\xa0\x80",
		"1", "..", "--", "-r", "_p", "_alpha", "~abc", "sp", "ga", "final", ".post", "post1", "!", "1!", "+local", "99999999999999999999"}
	for k := 1 + g.r.Intn(3); k > 0; k-- {
		switch g.r.Intn(6) {
		case 0, 1: // insert
			p := g.r.Intn(len(b) + 1)
			ins := special[g.r.Intn(len(special))]
			b = append(b[:p], append([]byte(ins), b[p:]...)...)
		case 2: // delete
			if len(b) > 0 {
				p := g.r.Intn(len(b))
				b = append(b[:p], b[p+1:]...)
			}
		case 3: // replace by random byte
			if len(b) > 0 {
				b[g.r.Intn(len(b))] = byte(g.r.Intn(256))
			}
		case 4: // duplicate a span
			if len(b) > 0 {
				p := g.r.Intn(len(b))
				q := p + 1 + g.r.Intn(min(4, len(b)-p))
				b = append(b[:q], append(append([]byte{}, b[p:q]...), b[q:]...)...)
			}
		case 5: // truncate
			if len(b) > 0 {
				b = b[:g.r.Intn(len(b)+1)]
			}
		}
	}
	if len(b) > 80 {
		b = b[:80]
	}
	return string(b)
}

// ---------------------------------------------------------------- per-ecosystem grammars

func (g *gen) semverIdent() string {
	switch g.r.Intn(10) {
	case 0, 1, 2:
		return g.pick("alpha", "beta", "rc", "pre", "a", "b", "x", "RC", "Alpha", "rc1", "x-y", "0a", "")
	case 3, 4, 5:
		return g.num()
	case 6:
		return "-" + g.num()
	default:
		return g.pick("1", "2", "0", "alpha", "beta")
	}
}

func (g *gen) semver(maxc int) string {
	var sb strings.Builder
	if g.chance(0.1) {
		sb.WriteString("v")
	}
	sb.WriteString(g.nums(1, maxc+1, dot))
	if g.chance(0.5) {
		sb.WriteString(g.pick("-", "-", "-", "", "_", "~"))
		n := 1 + g.r.Intn(3)
		for i := 0; i < n; i++ {
			if i > 0 {
				sb.WriteString(".")
			}
			sb.WriteString(g.semverIdent())
		}
	}
	if g.chance(0.2) {
		sb.WriteString("+" + g.pick("build", "1", "exp.sha.5114f85", "001", ""))
	}
	return sb.String()
}

func (g *gen) cran() string {
	s := g.nums(2, 5, func() string { return g.pick(".", ".", "-") })
	if g.chance(0.08) {
		s += g.pick(".", "-", "a", ".a", "-rc1", "..1")
	}
	return s
}

func (g *gen) rubygems() string {
	s := g.nums(1, 4, dot)
	if g.chance(0.45) {
		s += g.pick(".", "-", "", ".") + g.pick("pre", "rc", "a", "b", "beta", "alpha", "RC", "x", "pre.") + g.pick("", "", g.num(), "."+g.num())
	}
	if g.chance(0.1) {
		s += g.pick(".0", ".0.0", ".a.0", "-0")
	}
	return s
}

func (g *gen) debianish() string {
	alnum := func() string {
		var sb strings.Builder
		n := 1 + g.r.Intn(4)
		for i := 0; i < n; i++ {
			switch g.r.Intn(8) {
			case 0, 1, 2, 3:
				sb.WriteString(g.num())
			case 4:
				sb.WriteString(g.pick(".", ".", "+", "~", "-", ":"))
			case 5:
				sb.WriteString(g.pick("a", "b", "rc", "ubuntu", "deb", "u", "Z", "dfsg", "git"))
			case 6:
				sb.WriteString(g.pick("~", "~~", "~rc", "+b", "+dfsg"))
			default:
				sb.WriteString("." + g.num())
			}
		}
		return sb.String()
	}
	var sb strings.Builder
	if g.chance(0.25) {
		sb.WriteString(g.pick("0", "1", "2", "01", "10", g.num()) + ":")
	}
	sb.WriteString(g.num())
	if g.chance(0.8) {
		sb.WriteString("." + alnum())
	}
	if g.chance(0.5) {
		sb.WriteString("-" + g.pick("0", "1", "2", "1ubuntu1", "1+b1", "0ubuntu0.1", "1~bpo", alnum()))
	}
	if g.chance(0.05) {
		return " " + sb.String() + g.pick(" ", "\n", "\t")
	}
	return sb.String()
}

func (g *gen) redhat() string {
	var sb strings.Builder
	if g.chance(0.1) {
		sb.WriteString(g.pick("pkg-", "name-", "-"))
	}
	if g.chance(0.3) {
		sb.WriteString(g.pick("0", "1", "2", "", "01", "10") + ":")
	}
	seg := func() string {
		var s strings.Builder
		n := 1 + g.r.Intn(4)
		for i := 0; i < n; i++ {
			if i > 0 {
				s.WriteString(g.pick(".", ".", ".", "_", "+", "~", "^", "", ".."))
			}
			switch g.r.Intn(6) {
			case 0, 1, 2:
				s.WriteString(g.num())
			case 3:
				s.WriteString(g.pick("a", "b", "rc", "el", "fc", "git", "A", "Z"))
			case 4:
				s.WriteString(g.num() + g.pick("a", "b", "el8", "rc1"))
			default:
				s.WriteString(g.pick("~rc1", "^git1", "~", "^", "~~", "^1"))
			}
		}
		return s.String()
	}
	sb.WriteString(seg())
	if g.chance(0.5) {
		sb.WriteString("-" + seg())
		if g.chance(0.3) {
			sb.WriteString(g.pick(".el8", ".el7_9", ".fc30", ".x86_64"))
		}
	}
	return sb.String()
}

func (g *gen) pypi() string {
	var sb strings.Builder
	if g.chance(0.05) {
		sb.WriteString("v")
	}
	if g.chance(0.15) {
		sb.WriteString(g.pick("0", "1", "2", "01", g.num()) + "!")
	}
	sb.WriteString(g.nums(1, 4, dot))
	if g.chance(0.4) {
		sb.WriteString(g.pick("", "", ".", "-", "_") + g.pick("a", "b", "rc", "c", "alpha", "beta", "pre", "preview", "A", "RC") + g.pick("", "", ".", "-") + g.pick("", g.num(), "0", "1"))
	}
	if g.chance(0.3) {
		if g.chance(0.3) {
			sb.WriteString("-" + g.num())
		} else {
			sb.WriteString(g.pick("", ".", "-", "_") + g.pick("post", "rev", "r", "POST") + g.pick("", "", ".", "-") + g.pick("", g.num(), "0", "1"))
		}
	}
	if g.chance(0.3) {
		sb.WriteString(g.pick("", ".", "-", "_") + g.pick("dev", "DEV") + g.pick("", "", ".", "-") + g.pick("", g.num(), "0", "1"))
	}
	if g.chance(0.2) {
		sb.WriteString("+" + g.pick("local", "1", "abc.1", "1.abc", "ubuntu-1", "001", "a_b", "A.B", g.num(), "1.2", "1.10", "x.1.0"))
	}
	if g.chance(0.12) { // legacy
		return g.nums(1, 3, dot) + g.pick("-foo", ".x", "-", "pl1", "-final", ".dev-r1", "-preview1", "..1", "-1-1", "_x", "@")
	}
	return sb.String()
}

func (g *gen) packagist() string {
	var sb strings.Builder
	if g.chance(0.1) {
		sb.WriteString(g.pick("v", "V"))
	}
	sb.WriteString(g.nums(1, 4, dot))
	if g.chance(0.5) {
		sb.WriteString(g.pick("-", "", "_", "+", ".") + g.pick("dev", "alpha", "a", "beta", "b", "RC", "rc", "#", "p", "pl", "patch", "stable", "x", "DEV", "Beta") + g.pick("", "", g.num(), "."+g.num(), "-"+g.num()))
	}
	if g.chance(0.1) {
		sb.WriteString(g.pick(".0", ".", "-", ".0.0"))
	}
	return sb.String()
}

func (g *gen) alpine() string {
	var sb strings.Builder
	sb.WriteString(g.nums(1, 4, dot))
	if g.chance(0.2) {
		sb.WriteString(g.pick("a", "b", "z", "r"))
	}
	for g.chance(0.3) {
		sb.WriteString("_" + g.pick("alpha", "beta", "pre", "rc", "cvs", "svn", "git", "hg", "p") + g.pick("", g.num(), "1", "0"))
	}
	if g.chance(0.1) {
		sb.WriteString("~" + g.pick("abc123", "0", "deadbeef", "f"))
	}
	if g.chance(0.4) {
		sb.WriteString("-r" + g.pick("", "0", "1", "2", g.num()))
	}
	if g.chance(0.08) {
		sb.WriteString(g.pick("-x", "_foo", "A", ".", "-r1-r2", " ", "-", "_p1x"))
	}
	return sb.String()
}

func (g *gen) maven() string {
	var sb strings.Builder
	sb.WriteString(g.nums(1, 4, dot))
	n := g.r.Intn(3)
	for i := 0; i < n; i++ {
		sb.WriteString(g.pick("-", "-", ".", ""))
		switch g.r.Intn(5) {
		case 0, 1:
			sb.WriteString(g.pick("alpha", "beta", "milestone", "rc", "cr", "snapshot", "SNAPSHOT", "ga", "final", "release", "RELEASE", "sp", "a", "b", "m", "xyz", "jre", "Final", "RC"))
		case 2:
			sb.WriteString(g.pick("a", "b", "m", "rc", "alpha", "beta") + g.num())
		case 3:
			sb.WriteString(g.num())
		default:
			sb.WriteString(g.pick("0", "", "00", "0.0", "ga", "-"))
		}
	}
	return sb.String()
}

// suffixes that make near-ties: versions sharing a short base that differ only in a trailing
// qualifier / separator / zero component (these are where padding rules bite)
var tieSuffixes = map[string][]string{
	"maven":     {".a", "-rc", ".sp", "-sp", ".0.rc", "-1", ".1", ".foo", "-foo", ".#", "-0", ".0", "-ga", ".ga.1", "-alpha", ".alpha", "a1", "-SNAPSHOT", ".0-rc", ".rc", "-a", ".0.1", "-0.1", ".x", "-x", ".0.sp", "-+", ".+"},
	"alpine":    {"-r1_p2", "x_rc1", "~abc_p1", "_p1_rc2", "_pre", "_prex", "_p", ".", "..1", "~", "~g", "-r", "-rx", "a_b", "_alpha1_beta2-r3", ".0", ".00", "_cvs", "_rc", "-r0", "-r1", "a", "_p", "_p0", ".01", "_alpha1", ".000", ".1", "_cvs0", "_svn"},
	"packagist": {".99999999999999999999", ".5", "-dev", "-p1", "#", ".0", "RC1", "-beta", ".9223372036854775808", ".#", "-pl", ".1", "-a", "-#1"},
	"pypi":      {".0", ".dev0", "a0", ".post0", "+local", "-1", "rc1", ".0.0", ".dev", "+1", "+a", ".post1.dev0", "b1"},
	"debian":    {"~", "-0", "-1", "+b1", ".0", "a", "~~", "-0~", ".", "+", "-"},
	"redhat":    {"~rc", "^git", ".0", "-1", "a", ".a", "~", "^", ".", "-", "~~", "^^", "_", "-0"},
	"cran":      {".0", "-0", ".1", "-1", ".00", "-", ".", ".a"},
	"rubygems":  {".0", ".a", ".pre", "-1", ".rc1", ".0.0", ".a.0", "a", ".00", ".b"},
	"semver":    {".0", "-0", "-alpha", "-1", "+b", "-rc.1", "-RC.1", "-", "-.", "-a.", "-01", ".0.0"},
	"nuget":     {".0", "-0", "-alpha", "-1", "+b", "-rc.1", "-RC.1", "-ALPHA", ".0.0.0", "-a.B"},
}

// variants of a base string that are likely to tie or nearly tie with it
func (g *gen) variant(kind, s string) string {
	if suf := tieSuffixes[kind]; len(suf) > 0 && g.chance(0.45) {
		return s + suf[g.r.Intn(len(suf))]
	}
	switch g.r.Intn(8) {
	case 0:
		return s + ".0"
	case 1:
		return s + g.pick("-0", ".00", ".0.0", "0", "-", ".")
	case 2:
		return strings.ToUpper(s)
	case 3:
		if i := strings.IndexAny(s, ".-"); i >= 0 {
			return s[:i] + g.pick(".", "-", "_", "") + s[i+1:]
		}
		return "0" + s
	case 4:
		return "0" + s
	case 5:
		if i := strings.LastIndexAny(s, ".-"); i >= 0 {
			return s[:i]
		}
		return s + ".1"
	case 6:
		return s + g.pick("+x", "-1", ".1", "a", "-rc", "~", "_p1", "-r1", ".post1", ".dev0", "+1")
	default:
		return g.mutate(s)
	}
}

func (g *gen) valid(kind string) string {
	switch kind {
	case "semver":
		return g.semver(3)
	case "nuget":
		return g.semver(4)
	case "cran":
		return g.cran()
	case "rubygems":
		return g.rubygems()
	case "debian":
		return g.debianish()
	case "redhat":
		return g.redhat()
	case "pypi":
		return g.pypi()
	case "packagist":
		return g.packagist()
	case "alpine":
		return g.alpine()
	case "maven":
		return g.maven()
	}
	panic("unknown kind " + kind)
}

// ---------------------------------------------------------------- fixtures

var fixtureFiles = map[string][]string{
	"semver":    {"semver-versions.txt"},
	"nuget":     {"nuget-versions.txt", "semver-versions.txt"},
	"cran":      {"cran-versions.txt", "cran-versions-generated.txt"},
	"rubygems":  {"rubygems-versions.txt", "rubygems-versions-generated.txt"},
	"debian":    {"debian-versions.txt", "debian-versions-generated.txt"},
	"redhat":    {"redhat-versions.txt"},
	"pypi":      {"pypi-versions.txt", "pypi-versions-generated.txt"},
	"packagist": {"packagist-versions.txt", "packagist-versions-generated.txt"},
	"alpine":    {"alpine-versions.txt", "alpine-versions-generated.txt"},
	"maven":     {"maven-versions.txt", "maven-versions-generated.txt"},
}

// loadFixtures returns the distinct version strings of the fixture files ("a < b" lines).
func loadFixtures(dir, kind string) []string {
	seen := map[string]bool{}
	var out []string
	for _, f := range fixtureFiles[kind] {
		fh, err := os.Open(filepath.Join(dir, f))
		if err != nil {
			continue
		}
		sc := bufio.NewScanner(fh)
		for sc.Scan() {
			line := sc.Text()
			if line == "" || strings.HasPrefix(line, "#") {
				continue
			}
			parts := strings.Split(line, " ")
			if len(parts) != 3 {
				continue
			}
			for _, v := range []string{parts[0], parts[2]} {
				if !seen[v] {
					seen[v] = true
					out = append(out, v)
				}
			}
		}
		fh.Close()
	}
	return out
}

// ---------------------------------------------------------------- Unicode classes outside ASCII
// code points that Go's unicode.IsDigit / IsNumber / IsLetter / IsUpper / IsSpace / IsMark accept outside ASCII,
// plus format characters: Arabic-Indic, Devanagari and fullwidth digits, superscripts, Roman numerals, vulgar fraction,
// no-break / ideographic / en-quad spaces, NEL, line separator, fullwidth and Greek / Cyrillic letters, Kelvin sign,
// dotted capital I, combining marks, zero-width space, BOM
var unicodeClassRunes = []rune{0x0662, 0x0669, 0x0967, 0xFF11, 0xFF10, 0x00B2, 0x00B9, 0x2163, 0x00BD, 0x00A0, 0x3000, 0x2000, 0x0085,
	0x2028, 0xFF21, 0xFF41, 0x03A3, 0x0416, 0x212A, 0x0130, 0x0301, 0x0308, 0x200B, 0xFEFF}

var unicodeBases = map[string]string{
	"semver": "1.2.3-rc.1+b5", "nuget": "1.2.3.4-rc.1", "cran": "1.2-3", "rubygems": "1.2.rc1", "debian": "1:1.2~rc1-1",
	"redhat": "1:1.2~rc1-1.el8", "pypi": "1!1.2rc1.post2+l.1", "packagist": "v1.2.3-RC1", "alpine": "1.2a_rc1-r3", "maven": "1.2-rc-1",
}

// unicodeClassStrings: every code point inserted at every position of the base version and substituted for every one
// of its characters (so it lands inside numbers, next to every separator, inside qualifiers and at both ends)
func unicodeClassStrings(kind string, offset int) []string {
	base := unicodeBases[kind]
	var out []string
	for ri, r := range unicodeClassRunes {
		c := string(r)
		for i := 0; i <= len(base); i++ {
			isDigitPos := i < len(base) && base[i] >= '0' && base[i] <= '9'
			// digit-like runes replace EVERY digit of the base; otherwise a quarter of the (rune, position) grid per
			// ecosystem, rotated by [offset], so that the grid is covered across ecosystems and runs
			if unicode.IsDigit(r) && isDigitPos {
				out = append(out, base[:i]+c+base[i+1:])
			}
			if (ri+i+offset)%4 != 0 {
				continue
			}
			out = append(out, base[:i]+c+base[i:])
			if i < len(base) {
				out = append(out, base[:i]+c+base[i+1:])
			}
		}
	}
	return out
}

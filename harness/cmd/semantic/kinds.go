package main

import (
	"fmt"

	cf "verifharness/internal/coqfmt"
)

func printSemverLike(m map[string]any) string {
	return fmt.Sprintf("{| sv_leading_v := %s; sv_comps := %s; sv_build := %s; sv_original := %s |}",
		cf.Bool(m["leading_v"].(bool)), listOf(m["components"], optBig), hexBytes(m["build"]), hexBytes(m["original"]))
}

func printCran(m map[string]any) string {
	return fmt.Sprintf("{| cr_comps := %s |}", listOf(m["components"], optBig))
}

func printRubygems(m map[string]any) string {
	return fmt.Sprintf("{| rg_original := %s; rg_segments := %s |}", hexBytes(m["original"]), listOf(m["segments"], hexBytes))
}

func printDebian(m map[string]any) string {
	return fmt.Sprintf("{| db_epoch := %s; db_upstream := %s; db_revision := %s |}", optBig(m["epoch"]), hexBytes(m["upstream"]), hexBytes(m["revision"]))
}

func printRedhat(m map[string]any) string {
	return fmt.Sprintf("{| rh_epoch := %s; rh_version := %s; rh_release := %s |}", hexBytes(m["epoch"]), hexBytes(m["version"]), hexBytes(m["release"]))
}

func printLetNum(v any) string {
	m := v.(map[string]any)
	return fmt.Sprintf("{| ln_letter := %s; ln_number := %s |}", hexBytes(m["letter"]), optBig(m["number"]))
}

func printPypi(m map[string]any) string {
	return fmt.Sprintf("{| py_epoch := %s; py_release := %s; py_pre := %s; py_post := %s; py_dev := %s; py_local := %s; py_legacy := %s |}",
		optBig(m["epoch"]), listOf(m["release"], optBig), printLetNum(m["pre"]), printLetNum(m["post"]), printLetNum(m["dev"]),
		listOf(m["local"], hexBytes), listOf(m["legacy"], hexBytes))
}

func printPackagist(m map[string]any) string {
	return fmt.Sprintf("{| pk_original := %s; pk_components := %s |}", hexBytes(m["original"]), listOf(m["components"], hexBytes))
}

func jsonInt(v any) string { return cf.Z(int64(v.(float64))) }

func printAlpine(m map[string]any) string {
	comp := func(v any) string {
		c := v.(map[string]any)
		return fmt.Sprintf("{| an_original := %s; an_value := %s; an_index := %s |}", hexBytes(c["original"]), optBig(c["value"]), jsonInt(c["index"]))
	}
	suf := func(v any) string {
		c := v.(map[string]any)
		return fmt.Sprintf("{| as_weight := %s; as_number := %s |}", jsonInt(c["weight"]), optBig(c["number"]))
	}
	return fmt.Sprintf("{| al_original := %s; al_invalid := %s; al_remainder := %s; al_components := %s; al_letter := %s; al_suffixes := %s; al_hash := %s; al_build := %s |}",
		hexBytes(m["original"]), cf.Bool(m["invalid"].(bool)), hexBytes(m["remainder"]), listOf(m["components"], comp), hexBytes(m["letter"]),
		listOf(m["suffixes"], suf), hexBytes(m["hash"]), optBig(m["build_component"]))
}

func printMaven(m map[string]any) string {
	tok := func(v any) string {
		t := v.(map[string]any)
		return fmt.Sprintf("{| mt_prefix := %s; mt_value := %s; mt_null := %s |}", hexBytes(t["prefix"]), hexBytes(t["value"]), cf.Bool(t["is_null"].(bool)))
	}
	return fmt.Sprintf("{| mv_tokens := %s |}", listOf(m["tokens"], tok))
}

// registerKinds lists the model families that exist in coq/theories/Semantic (Registry.v).
func registerKinds() {
	kinds["semver"] = kindDef{typ: "semver", eco: "eco_semver", requires: "Semantic.Semver", print: printSemverLike}
	kinds["nuget"] = kindDef{typ: "semver", eco: "eco_nuget", requires: "Semantic.Semver Semantic.Nuget", print: printSemverLike, lowers: true}
	kinds["cran"] = kindDef{typ: "cran", eco: "eco_cran", requires: "Semantic.Cran", print: printCran}
	kinds["rubygems"] = kindDef{typ: "rubygems", eco: "eco_rubygems", requires: "Semantic.Rubygems", print: printRubygems}
	kinds["debian"] = kindDef{typ: "debian", eco: "eco_debian", requires: "Semantic.Debian", print: printDebian}
	kinds["pypi"] = kindDef{typ: "pypi", eco: "eco_pypi", requires: "Semantic.Pypi Semantic.PypiParse", print: printPypi, lowers: true}
	kinds["packagist"] = kindDef{typ: "packagist", eco: "eco_packagist", requires: "Semantic.Packagist", print: printPackagist}
	kinds["alpine"] = kindDef{typ: "alpine", eco: "eco_alpine", requires: "Semantic.Alpine Semantic.AlpineParse", print: printAlpine}
	kinds["maven"] = kindDef{typ: "maven", eco: "eco_maven", requires: "Semantic.Maven", print: printMaven, lowers: true}
	kinds["redhat"] = kindDef{typ: "redhat", eco: "eco_redhat", requires: "Semantic.Redhat", print: printRedhat}
}

// Command semantic drives semantic.Parse / Version.CompareStr of /repo on generated version strings and
// writes, per ecosystem (and shard), a Coq cases file (inputs + observed outputs) plus a JSONL side file.
//
// Per ecosystem shard: a table of distinct strings (each with the structure the implementation parsed, via
// the hook semantic.VerifParse), the observed comparison matrix of the first -pool strings, and further
// pairs observed in both argument orders.
package main

import (
	"encoding/hex"
	"encoding/json"
	"flag"
	"fmt"
	"math/rand"
	"os"
	"path/filepath"
	"strings"
	"unicode"
	"unicode/utf8"

	"github.com/google/osv-scalibr/semantic"

	cf "verifharness/internal/coqfmt"
)

type ecoDef struct {
	name string // name understood by semantic.Parse
	kind string // model family
}

var allEcos = []ecoDef{
	{"npm", "semver"}, {"crates.io", "semver"}, {"Go", "semver"}, {"Hex", "semver"}, {"Pub", "semver"}, {"ConanCenter", "semver"},
	{"NuGet", "nuget"}, {"CRAN", "cran"}, {"RubyGems", "rubygems"}, {"Debian", "debian"}, {"Ubuntu", "debian"},
	{"Red Hat", "redhat"}, {"PyPI", "pypi"}, {"Packagist", "packagist"}, {"Alpine", "alpine"}, {"Maven", "maven"},
}

// Coq side of each model family.
type kindDef struct {
	typ      string                       // Coq type of the parsed structure
	eco      string                       // ecosys value in Semantic/Registry.v
	requires string                       // extra modules
	print    func(m map[string]any) string // hook JSON -> Coq term
	lowers   bool                         // model uses the ASCII approximation of strings.ToLower
}

var kinds = map[string]kindDef{}

func slug(name string) string {
	var sb strings.Builder
	for _, c := range strings.ToLower(name) {
		if (c >= 'a' && c <= 'z') || (c >= '0' && c <= '9') {
			sb.WriteRune(c)
		}
	}
	return sb.String()
}

// ---------------------------------------------------------------- observing the implementation

// outcome codes: "Lt","Eq","Gt","Err","Panic"
var rawOutOfRange int

func observe(eco, a, b string) (res string) {
	defer func() {
		if r := recover(); r != nil {
			res = "Panic"
		}
	}()
	v, err := semantic.Parse(a, eco)
	if err != nil {
		return "Err"
	}
	c, err := v.CompareStr(b)
	if err != nil {
		return "Err"
	}
	if c < -1 || c > 1 {
		rawOutOfRange++
	}
	switch {
	case c < 0:
		return "Lt"
	case c > 0:
		return "Gt"
	}
	return "Eq"
}

type parsed struct {
	status string         // "ok","err","panic"
	obj    map[string]any // when ok
	raw    string
}

func observeParse(eco, s string) (p parsed) {
	defer func() {
		if r := recover(); r != nil {
			p = parsed{status: "panic"}
		}
	}()
	js, err := semantic.VerifParse(s, eco)
	if err != nil {
		return parsed{status: "err"}
	}
	var m map[string]any
	if err := json.Unmarshal([]byte(js), &m); err != nil {
		panic("hook JSON: " + err.Error())
	}
	return parsed{status: "ok", obj: m, raw: js}
}

// lowerLimit mirrors gen_unicode_lower_limit of Semantic/Generated_Tables.v: the model maps case below it
// (ASCII + the toolchain's unicode.ToLower table for U+0080..U+052F) and leaves higher code points unchanged.
const lowerLimit = 0x530

// modelLower is the Coq model's strings.ToLower, re-implemented here only to decide which inputs lie outside the
// modelled alphabet (those are kept out of the correspondence and counted).
func modelLower(s string) string {
	ascii := true
	b := []byte(s)
	for i, c := range b {
		if c >= 0x80 {
			ascii = false
		}
		if c >= 'A' && c <= 'Z' {
			b[i] = c + 32
		}
	}
	if ascii {
		return string(b)
	}
	var sb strings.Builder
	for _, r := range s { // invalid bytes come out as U+FFFD
		if r < lowerLimit {
			r = unicode.ToLower(r)
		}
		sb.WriteRune(r)
	}
	return sb.String()
}

// caseSweep: every code point of U+0080..U+052F, eight per string, so that the model's case table is compared
// with Go's on each run (parse correspondence for Maven / PyPI, comparison for NuGet)
func caseSweep(prefix string) []string {
	var out []string
	var sb strings.Builder
	n := 0
	for r := rune(0x80); r < lowerLimit; r++ {
		sb.WriteRune(r)
		n++
		if n == 8 {
			out = append(out, prefix+sb.String())
			sb.Reset()
			n = 0
		}
	}
	if n > 0 {
		out = append(out, prefix+sb.String())
	}
	return out
}

// ---------------------------------------------------------------- Coq printing helpers

func oc(code string) string {
	switch code {
	case "Lt", "Eq", "Gt":
		return "(Ok " + code + ")"
	}
	return code
}

func unhex(v any) []byte {
	b, err := hex.DecodeString(v.(string))
	if err != nil {
		panic(err)
	}
	return b
}

func hexBytes(v any) string { return cf.Bytes(unhex(v)) }

func optBig(v any) string {
	if v == nil {
		return "None"
	}
	return "(Some " + cf.ZStr(v.(string)) + ")"
}

func listOf(v any, f func(any) string) string {
	if v == nil {
		return "[]"
	}
	xs := v.([]any)
	items := make([]string, len(xs))
	for i, x := range xs {
		items[i] = f(x)
	}
	return cf.List(items)
}

func printable(s string) string {
	if utf8.ValidString(s) {
		return s
	}
	return strings.ToValidUTF8(s, "�")
}

// ---------------------------------------------------------------- one shard of one ecosystem

type shard struct {
	eco   ecoDef
	k     int
	strs  []string
	index map[string]int
	pars  []parsed
	pool  int
	mat   [][]string
	pairs [][2]int
	pobs  [][2]string
	rules []ruleIdx
}

type ruleIdx struct {
	i, j   int
	expect string
	rule   string
	ij, ji string
}

func (sh *shard) add(s string) int {
	if i, ok := sh.index[s]; ok {
		return i
	}
	i := len(sh.strs)
	sh.index[s] = i
	sh.strs = append(sh.strs, s)
	return i
}

var seedOffset int64

func buildShard(e ecoDef, k int, r *rand.Rand, fixtures []string, pool, extra, nrules int) *shard {
	g := &gen{r}
	sh := &shard{eco: e, k: k, index: map[string]int{}}
	fix := func() string {
		if len(fixtures) == 0 {
			return g.valid(e.kind)
		}
		return fixtures[r.Intn(len(fixtures))]
	}
	// --- pool: special markers of the ecosystem (always together), tie families, bases with variants, fixtures, malformed
	for _, s := range markers[e.kind] {
		sh.add(s)
	}
	for _, s := range []string{"1", "1.0", "1.00", "1.0.0"} {
		sh.add(s)
	}
	if k%2 == 0 {
		sh.add("")
	}
	guard := 0
	for len(sh.strs) < pool && guard < 10000 {
		guard++
		switch x := r.Intn(12); {
		case x >= 10:
			// short base + tie suffix: families like 1, 1.a, 1-rc, 1.0.rc
			short := []string{"1", "1.0", "2", "1.2", "1.0.0", "0", "1.1"}
			base := short[r.Intn(len(short))]
			for _, c := range sh.strs {
				if len(c) <= 5 && g.chance(0.15) {
					base = c
				}
			}
			sh.add(g.variant(e.kind, base))
		case x < 4:
			base := g.valid(e.kind)
			sh.add(base)
			for v := r.Intn(3); v > 0 && len(sh.strs) < pool; v-- {
				sh.add(g.variant(e.kind, base))
			}
		case x < 6:
			base := fix()
			sh.add(base)
			if g.chance(0.5) && len(sh.strs) < pool {
				sh.add(g.variant(e.kind, base))
			}
		case x < 8:
			// a variant of something already in the pool: near-ties across families
			sh.add(g.variant(e.kind, sh.strs[r.Intn(len(sh.strs))]))
		default:
			sh.add(g.mutate(fix()))
		}
	}
	sh.pool = len(sh.strs)
	// --- extra pairs
	for n := 0; n < extra; n++ {
		var a string
		switch x := r.Intn(8); {
		case x < 4:
			a = g.valid(e.kind)
		case x < 6:
			a = fix()
		default:
			a = g.mutate(g.valid(e.kind))
		}
		ia := sh.add(a)
		var b string
		switch r.Intn(4) {
		case 0:
			b = sh.strs[r.Intn(sh.pool)]
		case 1:
			b = g.variant(e.kind, a)
		case 2:
			b = g.valid(e.kind)
		default:
			b = g.mutate(a)
		}
		ib := sh.add(b)
		sh.pairs = append(sh.pairs, [2]int{ia, ib})
	}
	// --- non-ASCII Unicode classes in every token position (shard 0: deterministic sweep): against the base version and
	// against themselves, both argument orders -> no panic, antisymmetry, reflexivity; plus the model correspondence
	if k == 0 {
		ib := sh.add(unicodeBases[e.kind])
		for _, s := range unicodeClassStrings(e.kind, int(seedOffset)+len(e.name)) {
			is := sh.add(s)
			sh.pairs = append(sh.pairs, [2]int{is, ib}, [2]int{is, is})
		}
	}
	// --- canonical-rule cases: published chains (fixed) + rule-constructed pairs (fresh per shard)
	rcs := append(publishedChains(e.kind), ruleCases(e.kind, g, nrules)...)
	if k == 0 { // deterministic: once per ecosystem
		rcs = append(rcs, systematicRules(e.kind)...)
	}
	if kinds[e.kind].lowers && k == 0 {
		prefix := map[string]string{"nuget": "1.0.0-", "maven": "1-", "pypi": "1.0-"}[e.kind]
		for _, s := range caseSweep(prefix) {
			sh.add(s) // table only: parse correspondence
			if e.kind == "nuget" {
				rcs = append(rcs, ruleCase{s, strings.ToLower(s), "Eq", "NuGet: pre-release labels are case-insensitive (Unicode case sweep U+0080..U+052F)"})
			}
		}
	}
	for _, rc := range rcs {
		sh.rules = append(sh.rules, ruleIdx{i: sh.add(rc.a), j: sh.add(rc.b), expect: rc.expect, rule: rc.rule})
	}
	// --- observe
	for _, s := range sh.strs {
		sh.pars = append(sh.pars, observeParse(e.name, s))
	}
	sh.mat = make([][]string, sh.pool)
	for i := 0; i < sh.pool; i++ {
		sh.mat[i] = make([]string, sh.pool)
		for j := 0; j < sh.pool; j++ {
			sh.mat[i][j] = observe(e.name, sh.strs[i], sh.strs[j])
		}
	}
	for _, p := range sh.pairs {
		sh.pobs = append(sh.pobs, [2]string{observe(e.name, sh.strs[p[0]], sh.strs[p[1]]), observe(e.name, sh.strs[p[1]], sh.strs[p[0]])})
	}
	for k := range sh.rules {
		r := &sh.rules[k]
		r.ij, r.ji = observe(e.name, sh.strs[r.i], sh.strs[r.j]), observe(e.name, sh.strs[r.j], sh.strs[r.i])
		// rule pairs are also ordinary pairs: correspondence with the model and the symmetric laws apply to them
		sh.pairs = append(sh.pairs, [2]int{r.i, r.j})
		sh.pobs = append(sh.pobs, [2]string{r.ij, r.ji})
	}
	return sh
}

func (sh *shard) modelled(i int) bool {
	kd := kinds[sh.eco.kind]
	if !kd.lowers {
		return true
	}
	return strings.ToLower(sh.strs[i]) == modelLower(sh.strs[i])
}

func (sh *shard) coq(withModel bool) string {
	kd := kinds[sh.eco.kind]
	var sb strings.Builder
	sb.WriteString("From Coq Require Import List ZArith NArith Bool.\n")
	sb.WriteString("From Scalibr Require Import Semantic.Cmp Semantic.Bytes Semantic.Cases Semantic.Registry " + kd.requires + ".\n")
	sb.WriteString("Import ListNotations.\n")
	items := make([]string, len(sh.strs))
	for i, s := range sh.strs {
		hook := "Err"
		switch sh.pars[i].status {
		case "ok":
			hook = "(Ok " + kd.print(sh.pars[i].obj) + ")"
		case "panic":
			hook = "Panic"
		}
		items[i] = fmt.Sprintf("{| si_str := %s; si_hook := %s; si_modelled := %s |}", cf.Str(s), hook, cf.Bool(sh.modelled(i)))
	}
	sb.WriteString(cf.Chunked("tbl", "(sitem "+kd.typ+")", items, 100))
	rows := make([]string, sh.pool)
	for i := range rows {
		cells := make([]string, sh.pool)
		for j := range cells {
			cells[j] = oc(sh.mat[i][j])
		}
		rows[i] = cf.List(cells)
	}
	sb.WriteString("Definition mat : list (list oc) :=\n [ " + strings.Join(rows, ";\n   ") + " ].\n")
	ps := make([]string, len(sh.pairs))
	for i, p := range sh.pairs {
		ps[i] = fmt.Sprintf("{| pc_i := %d; pc_j := %d; pc_ij := %s; pc_ji := %s |}", p[0], p[1], oc(sh.pobs[i][0]), oc(sh.pobs[i][1]))
	}
	sb.WriteString(cf.Chunked("pairs", "pcase", ps, 250))
	rs := make([]string, len(sh.rules))
	for i, r := range sh.rules {
		rs[i] = fmt.Sprintf("{| rc_i := %d; rc_j := %d; rc_expect := %s; rc_ij := %s; rc_ji := %s |}", r.i, r.j, r.expect, oc(r.ij), oc(r.ji))
	}
	sb.WriteString(cf.Chunked("rules", "rcase", rs, 250))
	e := kd.eco
	sb.WriteString("Definition ms := Eval vm_compute in ms_tbl " + e + " tbl.\n")
	for _, d := range [][2]string{
		{"corr_parse_bad", "corr_parse " + e + " tbl"},
		{"corr_matrix_bad", "corr_matrix " + e + " ms mat"},
		{"corr_pairs_bad", "corr_pairs " + e + " ms pairs"},
		{"spec_parse_total_bad", "spec_parse_total tbl"},
		{"spec_refl_bad", "spec_refl " + e + " tbl mat"},
		{"spec_antisym_total_bad", "spec_antisym_total " + e + " tbl mat"},
		{"spec_pairs_bad", "spec_pairs " + e + " tbl pairs"},
		{"spec_trans_bad", "spec_trans " + e + " tbl mat"},
		{"spec_rules_bad", "spec_rules rules"},
		{"in_domain_count", "[in_domain " + e + " tbl mat]"},
	} {
		sb.WriteString("Definition " + d[0] + " := Eval vm_compute in " + d[1] + ".\nPrint " + d[0] + ".\n")
	}
	if withModel {
		sb.WriteString("Definition model_matrix := Eval vm_compute in map (fun a => map (fun b => cmp_o " + e + " (fst a) (fst b)) ms) ms.\nPrint model_matrix.\n")
		sb.WriteString("Definition domain_valid := Eval vm_compute in dom_tbl (ec_valid " + e + ") tbl.\nPrint domain_valid.\n")
		sb.WriteString("Definition domain_total := Eval vm_compute in dom_tbl (ec_total_dom " + e + ") tbl.\nPrint domain_total.\n")
	}
	return sb.String()
}

func (sh *shard) jsonl(enc *json.Encoder) {
	for i, s := range sh.strs {
		rec := map[string]any{"t": "str", "eco": sh.eco.name, "shard": sh.k, "i": i, "s": printable(s), "hex": hex.EncodeToString([]byte(s)),
			"pstatus": sh.pars[i].status, "modelled": sh.modelled(i), "pool": i < sh.pool}
		if sh.pars[i].status == "ok" {
			rec["parse"] = sh.pars[i].obj
		}
		enc.Encode(rec)
	}
	nt := func(i, j int) bool { // non-trivial: different strings that parse to different structures
		if i == j {
			return false
		}
		a, b := sh.pars[i], sh.pars[j]
		if a.status != "ok" || b.status != "ok" {
			return a.status != b.status
		}
		return stripOriginal(a.obj) != stripOriginal(b.obj)
	}
	for i := 0; i < sh.pool; i++ {
		for j := 0; j < sh.pool; j++ {
			enc.Encode(map[string]any{"t": "pair", "src": "matrix", "eco": sh.eco.name, "shard": sh.k, "i": i, "j": j, "ij": sh.mat[i][j], "ji": sh.mat[j][i], "nt": nt(i, j)})
		}
	}
	for n, r := range sh.rules {
		enc.Encode(map[string]any{"t": "rule", "eco": sh.eco.name, "shard": sh.k, "n": n, "i": r.i, "j": r.j, "expect": r.expect, "rule": r.rule, "ij": r.ij, "ji": r.ji})
	}
	for n, p := range sh.pairs {
		enc.Encode(map[string]any{"t": "pair", "src": "extra", "eco": sh.eco.name, "shard": sh.k, "n": n, "i": p[0], "j": p[1], "ij": sh.pobs[n][0], "ji": sh.pobs[n][1], "nt": nt(p[0], p[1])})
	}
}

// structure without the fields that merely echo the input
func stripOriginal(m map[string]any) string {
	c := map[string]any{}
	for k, v := range m {
		if k != "original" && k != "leading_v" {
			c[k] = v
		}
	}
	b, _ := json.Marshal(c)
	return string(b)
}

func main() {
	outdir := flag.String("outdir", "", "directory for the generated .v files")
	side := flag.String("jsonl", "", "side file (one JSON record per line)")
	seed := flag.Int64("seed", 1, "PRNG seed")
	pool := flag.Int("pool", 48, "pool size per ecosystem shard (all pairs and triples)")
	extra := flag.Int("extra", 150, "further random pairs per ecosystem shard")
	shards := flag.Int("shards", 1, "shards per ecosystem")
	nrules := flag.Int("rules", 64, "rule-constructed canonical pairs per ecosystem shard (besides the published chains)")
	testdata := flag.String("testdata", "/repo/semantic/testdata", "fixture directory")
	only := flag.String("kinds", "", "comma separated model families to run (default: all that have a Coq printer)")
	replay := flag.String("replay", "", "replay file: {\"case\":{\"eco\":..., \"hex\":[...]}}")
	flag.Parse()
	registerKinds()
	seedOffset = *seed

	if *replay != "" {
		doReplay(*replay, *outdir)
		return
	}
	want := map[string]bool{}
	for _, k := range strings.Split(*only, ",") {
		if k != "" {
			want[k] = true
		}
	}
	sf, err := os.Create(*side)
	if err != nil {
		panic(err)
	}
	enc := json.NewEncoder(sf)
	var files []string
	for ei, e := range allEcos {
		if _, ok := kinds[e.kind]; !ok {
			continue
		}
		if len(want) > 0 && !want[e.kind] {
			continue
		}
		fixtures := loadFixtures(*testdata, e.kind)
		for k := 0; k < *shards; k++ {
			// one PRNG stream per (seed, ecosystem, shard): identical case list for identical flags
			r := rand.New(rand.NewSource(*seed*1000003 + int64(ei)*1009 + int64(k)))
			sh := buildShard(e, k, r, fixtures, *pool, *extra, *nrules)
			name := fmt.Sprintf("C07_%s_%d", slug(e.name), k)
			if err := os.WriteFile(filepath.Join(*outdir, name+".v"), []byte(sh.coq(false)), 0o644); err != nil {
				panic(err)
			}
			sh.jsonl(enc)
			files = append(files, name)
			enc.Encode(map[string]any{"t": "shard", "eco": e.name, "kind": e.kind, "shard": k, "file": name, "strings": len(sh.strs), "pool": sh.pool, "pairs": len(sh.pairs), "rules": len(sh.rules), "fixtures": len(fixtures)})
		}
	}
	enc.Encode(map[string]any{"t": "summary", "raw_out_of_range": rawOutOfRange, "files": files})
	sf.Close()
	fmt.Printf("files=%d raw_out_of_range=%d\n", len(files), rawOutOfRange)
}

func doReplay(path, outdir string) {
	b, err := os.ReadFile(path)
	if err != nil {
		panic(err)
	}
	var wrap struct {
		Case struct {
			Eco string   `json:"eco"`
			Hex []string `json:"hex"`
		} `json:"case"`
	}
	if err := json.Unmarshal(b, &wrap); err != nil {
		panic(err)
	}
	var e ecoDef
	for _, x := range allEcos {
		if x.name == wrap.Case.Eco {
			e = x
		}
	}
	if e.name == "" {
		panic("unknown ecosystem " + wrap.Case.Eco)
	}
	sh := &shard{eco: e, index: map[string]int{}}
	for _, h := range wrap.Case.Hex {
		s, err := hex.DecodeString(h)
		if err != nil {
			panic(err)
		}
		sh.strs = append(sh.strs, string(s)) // no dedup: keep the caller's indices
	}
	sh.pool = len(sh.strs)
	for _, s := range sh.strs {
		sh.pars = append(sh.pars, observeParse(e.name, s))
	}
	sh.mat = make([][]string, sh.pool)
	for i := range sh.mat {
		sh.mat[i] = make([]string, sh.pool)
		for j := range sh.mat[i] {
			sh.mat[i][j] = observe(e.name, sh.strs[i], sh.strs[j])
		}
	}
	fmt.Printf("ecosystem: %s\n", e.name)
	for i, s := range sh.strs {
		fmt.Printf("  [%d] %q parse=%s %s\n", i, s, sh.pars[i].status, sh.pars[i].raw)
	}
	fmt.Println("implementation (row i vs column j):")
	for i := range sh.mat {
		fmt.Printf("  [%d] %s\n", i, strings.Join(sh.mat[i], " "))
	}
	out, _ := json.Marshal(sh.mat)
	fmt.Printf("matrix-json: %s\n", out)
	if _, ok := kinds[e.kind]; ok && outdir != "" {
		p := filepath.Join(outdir, "C07_replay.v")
		if err := os.WriteFile(p, []byte(sh.coq(true)), 0o644); err != nil {
			panic(err)
		}
		fmt.Printf("coq-file: %s\n", p)
	}
}

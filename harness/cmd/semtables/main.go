// Command semtables is the C07 translator: it reads the Go *source* of <repo>/semantic (go/ast + go/constant,
// no linking) and regenerates coq/theories/Semantic/Generated_Tables.v with the keyword / weight tables that the
// Coq models of the ecosystems USE instead of hand-copied values:
//
//	Maven      keywordOrder; the alias rewrites of newMavenVersion (unconditional and "only before a digit");
//	           the values shouldTrim treats as null; the value that makes the '.'-padding empty ("sp")
//	Alpine     the suffix list of weightAlpineSuffixString (its order IS the weight) and the weight fetchSuffix pads with
//	Packagist  the prefix -> weight rules of weighPackagistBuildCharacter, in the order the code tests them
//	Debian     the constants of weighDebianChar ("~" weight, "" weight, the non-letter offset and the letter bounds)
//	PyPI       the spelling normalisation of parseLetterVersion and of normalizePyPILegacyPart
//
// Every extraction is a syntactic pattern on the function named; when the pattern is not found the translator
// fails (exit 2) rather than inventing a value. The same data is written as JSON for the evidence.
package main

import (
	"crypto/sha256"
	"encoding/json"
	"flag"
	"fmt"
	"go/ast"
	"go/constant"
	"go/parser"
	"go/token"
	"math/big"
	"os"
	"path/filepath"
	"strconv"
	"strings"
	"unicode"

	cf "verifharness/internal/coqfmt"
)

func fatal(format string, a ...any) {
	fmt.Fprintf(os.Stderr, "semtables: "+format+"\n", a...)
	os.Exit(2)
}

type pair struct {
	From string `json:"from"`
	To   string `json:"to"`
}
type weight struct {
	Prefix string `json:"prefix"`
	Weight int64  `json:"weight"`
}
type tables struct {
	MavenKeywordOrder      []string `json:"maven_keyword_order"`
	MavenAliases           []pair   `json:"maven_aliases"`
	MavenAliasesBeforeNum  []pair   `json:"maven_aliases_before_digit"`
	MavenShouldTrim        []string `json:"maven_should_trim"`
	MavenEmptyPadFor       []string `json:"maven_empty_dot_padding_for"`
	AlpineSuffixOrder      []string `json:"alpine_suffix_order"`
	AlpineSuffixPadWeight  int64    `json:"alpine_suffix_pad_weight"`
	PackagistPrefixWeights []weight `json:"packagist_prefix_weights"`
	PackagistDefaultWeight int64    `json:"packagist_default_weight"`
	DebianTildeWeight      int64    `json:"debian_tilde_weight"`
	DebianEmptyWeight      int64    `json:"debian_empty_weight"`
	DebianNonLetterOffset  int64    `json:"debian_non_letter_offset"`
	DebianLetterBounds     []int64  `json:"debian_letter_bounds"`
	PyPILetterAliases      []pair   `json:"pypi_letter_aliases"`
	PyPILegacyAliases      []pair   `json:"pypi_legacy_aliases"`
	UnicodeLowerPairs      int      `json:"unicode_lower_pairs_below_0x530"`
}

var fset = token.NewFileSet()

func parse(repo, name string) *ast.File {
	f, err := parser.ParseFile(fset, filepath.Join(repo, "semantic", name), nil, 0)
	if err != nil {
		fatal("parse %s: %v", name, err)
	}
	return f
}

func funcDecl(f *ast.File, name string) *ast.FuncDecl {
	for _, d := range f.Decls {
		if fd, ok := d.(*ast.FuncDecl); ok && fd.Name.Name == name && fd.Body != nil {
			return fd
		}
	}
	fatal("function %s not found", name)
	return nil
}

func str(e ast.Expr) (string, bool) {
	lit, ok := e.(*ast.BasicLit)
	if !ok || lit.Kind != token.STRING {
		return "", false
	}
	s, err := strconv.Unquote(lit.Value)
	return s, err == nil
}

func intOf(e ast.Expr) (int64, bool) {
	switch x := e.(type) {
	case *ast.BasicLit:
		if x.Kind != token.INT && x.Kind != token.CHAR {
			return 0, false
		}
		v := constant.MakeFromLiteral(x.Value, x.Kind, 0)
		n, ok := constant.Int64Val(constant.ToInt(v))
		return n, ok
	case *ast.UnaryExpr:
		if n, ok := intOf(x.X); ok {
			switch x.Op {
			case token.ADD:
				return n, true
			case token.SUB:
				return -n, true
			}
		}
	case *ast.ParenExpr:
		return intOf(x.X)
	}
	return 0, false
}

// []string{...} literal -> its elements
func stringSlice(e ast.Expr) ([]string, bool) {
	cl, ok := e.(*ast.CompositeLit)
	if !ok {
		return nil, false
	}
	at, ok := cl.Type.(*ast.ArrayType)
	if !ok {
		return nil, false
	}
	if id, ok := at.Elt.(*ast.Ident); !ok || id.Name != "string" {
		return nil, false
	}
	out := []string{}
	for _, el := range cl.Elts {
		s, ok := str(el)
		if !ok {
			return nil, false
		}
		out = append(out, s)
	}
	return out, true
}

// `<lhs> == "lit" || <lhs> == "lit" ...` -> the literals, when every disjunct compares the same printed lhs
func eqDisjunction(e ast.Expr, lhs string) ([]string, bool) {
	switch x := e.(type) {
	case *ast.ParenExpr:
		return eqDisjunction(x.X, lhs)
	case *ast.BinaryExpr:
		if x.Op == token.LOR {
			a, ok1 := eqDisjunction(x.X, lhs)
			b, ok2 := eqDisjunction(x.Y, lhs)
			return append(a, b...), ok1 && ok2
		}
		if x.Op == token.EQL && exprString(x.X) == lhs {
			if s, ok := str(x.Y); ok {
				return []string{s}, true
			}
		}
	}
	return nil, false
}

func exprString(e ast.Expr) string {
	switch x := e.(type) {
	case *ast.Ident:
		return x.Name
	case *ast.SelectorExpr:
		return exprString(x.X) + "." + x.Sel.Name
	case *ast.ParenExpr:
		return exprString(x.X)
	}
	return "?"
}

// body is exactly `<lhs> = "lit"`
func singleAssign(b *ast.BlockStmt, lhs string) (string, bool) {
	if len(b.List) != 1 {
		return "", false
	}
	as, ok := b.List[0].(*ast.AssignStmt)
	if !ok || as.Tok != token.ASSIGN || len(as.Lhs) != 1 || len(as.Rhs) != 1 || exprString(as.Lhs[0]) != lhs {
		return "", false
	}
	return str(as.Rhs[0])
}

// body is exactly `return <int>`
func singleReturnInt(b *ast.BlockStmt) (int64, bool) {
	if len(b.List) != 1 {
		return 0, false
	}
	rs, ok := b.List[0].(*ast.ReturnStmt)
	if !ok || len(rs.Results) != 1 {
		return 0, false
	}
	return intOf(rs.Results[0])
}

func containsAliasIf(b *ast.BlockStmt) bool {
	found := false
	ast.Inspect(b, func(m ast.Node) bool {
		if is, ok := m.(*ast.IfStmt); ok {
			if _, ok := eqDisjunction(is.Cond, "current"); ok {
				if _, ok := singleAssign(is.Body, "current"); ok {
					found = true
				}
			}
		}
		return !found
	})
	return found
}

// ---------------------------------------------------------------- Maven
func maven(repo string, t *tables) {
	f := parse(repo, "version-maven.go")
	for _, d := range f.Decls {
		gd, ok := d.(*ast.GenDecl)
		if !ok || gd.Tok != token.VAR {
			continue
		}
		for _, s := range gd.Specs {
			vs := s.(*ast.ValueSpec)
			for i, n := range vs.Names {
				if n.Name == "keywordOrder" && i < len(vs.Values) {
					if xs, ok := stringSlice(vs.Values[i]); ok {
						t.MavenKeywordOrder = xs
					}
				}
			}
		}
	}
	if t.MavenKeywordOrder == nil {
		fatal("maven: var keywordOrder = []string{...} not found")
	}
	// alias rewrites: `if current == "x" [|| ...] { current = "y" }`; depth 1 inside another `if` whose condition is not
	// such a disjunction = the "directly followed by a number" block
	fd := funcDecl(f, "newMavenVersion")
	var walk func(n ast.Node, guarded bool)
	walk = func(n ast.Node, guarded bool) {
		ast.Inspect(n, func(m ast.Node) bool {
			is, ok := m.(*ast.IfStmt)
			if !ok || m == n {
				return true
			}
			if froms, ok := eqDisjunction(is.Cond, "current"); ok {
				if to, ok := singleAssign(is.Body, "current"); ok && is.Else == nil {
					for _, fr := range froms {
						if guarded {
							t.MavenAliasesBeforeNum = append(t.MavenAliasesBeforeNum, pair{fr, to})
						} else {
							t.MavenAliases = append(t.MavenAliases, pair{fr, to})
						}
					}
					return false
				}
			}
			// a guard around further rewrites, e.g. `if transition != len(rawTokens[i]) { ... }`: the rewrites inside are
			// recorded as conditional (the model reads the condition as "directly followed by a digit")
			if !guarded && containsAliasIf(is.Body) {
				walk(is.Body, true)
				return false
			}
			return true
		})
	}
	walk(fd.Body, false)
	if len(t.MavenAliases) == 0 || len(t.MavenAliasesBeforeNum) == 0 {
		fatal("maven: alias rewrites of newMavenVersion not found")
	}
	// shouldTrim: return vt.value == "0" || ...
	st := funcDecl(f, "shouldTrim")
	if len(st.Body.List) == 1 {
		if rs, ok := st.Body.List[0].(*ast.ReturnStmt); ok && len(rs.Results) == 1 {
			if xs, ok := eqDisjunction(rs.Results[0], "vt.value"); ok {
				t.MavenShouldTrim = xs
			}
		}
	}
	if t.MavenShouldTrim == nil {
		fatal("maven: shouldTrim pattern not found")
	}
	// newMavenNullVersionToken: `if token.value == "sp" { value = "" }`
	nn := funcDecl(f, "newMavenNullVersionToken")
	ast.Inspect(nn.Body, func(m ast.Node) bool {
		if is, ok := m.(*ast.IfStmt); ok {
			if froms, ok := eqDisjunction(is.Cond, "token.value"); ok {
				if to, ok := singleAssign(is.Body, "value"); ok && to == "" {
					t.MavenEmptyPadFor = append(t.MavenEmptyPadFor, froms...)
				}
			}
		}
		return true
	})
	if t.MavenEmptyPadFor == nil {
		fatal("maven: newMavenNullVersionToken special value not found")
	}
}

// ---------------------------------------------------------------- Alpine
func alpine(repo string, t *tables) {
	f := parse(repo, "version-alpine.go")
	fd := funcDecl(f, "weightAlpineSuffixString")
	ast.Inspect(fd.Body, func(m ast.Node) bool {
		if as, ok := m.(*ast.AssignStmt); ok && len(as.Lhs) == 1 && exprString(as.Lhs[0]) == "supported" && len(as.Rhs) == 1 {
			if xs, ok := stringSlice(as.Rhs[0]); ok {
				t.AlpineSuffixOrder = xs
			}
		}
		return true
	})
	if t.AlpineSuffixOrder == nil {
		fatal("alpine: supported := []string{...} not found in weightAlpineSuffixString")
	}
	// the final `return len(supported)` makes every other captured suffix ("p") the highest: record it as last entry
	t.AlpineSuffixOrder = append(t.AlpineSuffixOrder, "p")
	fs := funcDecl(f, "fetchSuffix")
	found := false
	ast.Inspect(fs.Body, func(m ast.Node) bool {
		cl, ok := m.(*ast.CompositeLit)
		if !ok || exprString(cl.Type) != "alpineSuffix" {
			return true
		}
		for _, el := range cl.Elts {
			if kv, ok := el.(*ast.KeyValueExpr); ok && exprString(kv.Key) == "weight" {
				if n, ok := intOf(kv.Value); ok {
					t.AlpineSuffixPadWeight, found = n, true
				}
			}
		}
		return true
	})
	if !found {
		fatal("alpine: fetchSuffix padding weight not found")
	}
}

// ---------------------------------------------------------------- Packagist
func packagist(repo string, t *tables) {
	f := parse(repo, "version-packagist.go")
	fd := funcDecl(f, "weighPackagistBuildCharacter")
	gotDefault := false
	for _, st := range fd.Body.List {
		switch x := st.(type) {
		case *ast.IfStmt: // if strings.HasPrefix(str, "RC") { return 3 }
			if p, ok := hasPrefixLit(x.Cond); ok {
				if n, ok := singleReturnInt(x.Body); ok {
					t.PackagistPrefixWeights = append(t.PackagistPrefixWeights, weight{p, n})
				}
			}
		case *ast.AssignStmt: // specials := []string{...}
			if len(x.Lhs) == 1 && exprString(x.Lhs[0]) == "specials" {
				if xs, ok := stringSlice(x.Rhs[0]); ok {
					for i, s := range xs { // for i, special := range specials { if HasPrefix { return i } }
						t.PackagistPrefixWeights = append(t.PackagistPrefixWeights, weight{s, int64(i)})
					}
				}
			}
		case *ast.ReturnStmt:
			if len(x.Results) == 1 {
				if n, ok := intOf(x.Results[0]); ok {
					t.PackagistDefaultWeight, gotDefault = n, true
				}
			}
		}
	}
	if len(t.PackagistPrefixWeights) < 2 || !gotDefault {
		fatal("packagist: weighPackagistBuildCharacter patterns not found")
	}
}

func hasPrefixLit(e ast.Expr) (string, bool) {
	ce, ok := e.(*ast.CallExpr)
	if !ok || exprString(ce.Fun) != "strings.HasPrefix" || len(ce.Args) != 2 {
		return "", false
	}
	return str(ce.Args[1])
}

// ---------------------------------------------------------------- Debian
func debian(repo string, t *tables) {
	f := parse(repo, "version-debian.go")
	fd := funcDecl(f, "weighDebianChar")
	got := 0
	for _, st := range fd.Body.List {
		is, ok := st.(*ast.IfStmt)
		if !ok {
			continue
		}
		if lits, ok := eqDisjunction(is.Cond, "char"); ok && len(lits) == 1 {
			if n, ok := singleReturnInt(is.Body); ok {
				switch lits[0] {
				case "~":
					t.DebianTildeWeight = n
					got++
				case "":
					t.DebianEmptyWeight = n
					got++
				}
			}
			continue
		}
		// if c < 65 || (c > 90 && c < 97) || c > 122 { c += 122 }
		if len(is.Body.List) == 1 {
			if as, ok := is.Body.List[0].(*ast.AssignStmt); ok && as.Tok == token.ADD_ASSIGN && exprString(as.Lhs[0]) == "c" {
				if n, ok := intOf(as.Rhs[0]); ok {
					t.DebianNonLetterOffset = n
					got++
				}
				ast.Inspect(is.Cond, func(m ast.Node) bool {
					if be, ok := m.(*ast.BinaryExpr); ok && exprString(be.X) == "c" {
						if n, ok := intOf(be.Y); ok {
							switch be.Op { // normalised to strict comparisons: c <= k is c < k+1, c >= k is c > k-1
							case token.LSS, token.GTR:
								t.DebianLetterBounds = append(t.DebianLetterBounds, n)
							case token.LEQ:
								t.DebianLetterBounds = append(t.DebianLetterBounds, n+1)
							case token.GEQ:
								t.DebianLetterBounds = append(t.DebianLetterBounds, n-1)
							}
						}
					}
					return true
				})
			}
		}
	}
	if got != 3 || len(t.DebianLetterBounds) != 4 {
		fatal("debian: weighDebianChar patterns not found (got %d, bounds %v)", got, t.DebianLetterBounds)
	}
}

// ---------------------------------------------------------------- PyPI
// switch <tag> { case "x": <tag> = "y"; case "c": fallthrough; case "pre": fallthrough; case "preview": <tag> = "rc" }
func switchAliases(fd *ast.FuncDecl, tag string) []pair {
	var out []pair
	ast.Inspect(fd.Body, func(m ast.Node) bool {
		sw, ok := m.(*ast.SwitchStmt)
		if !ok || sw.Tag == nil || exprString(sw.Tag) != tag {
			return true
		}
		var pending []string
		for _, c := range sw.Body.List {
			cc := c.(*ast.CaseClause)
			var keys []string
			for _, e := range cc.List {
				if s, ok := str(e); ok {
					keys = append(keys, s)
				}
			}
			if len(cc.Body) == 1 {
				if br, ok := cc.Body[0].(*ast.BranchStmt); ok && br.Tok == token.FALLTHROUGH {
					pending = append(pending, keys...)
					continue
				}
				if as, ok := cc.Body[0].(*ast.AssignStmt); ok && exprString(as.Lhs[0]) == tag {
					if to, ok := str(as.Rhs[0]); ok {
						for _, k := range append(pending, keys...) {
							out = append(out, pair{k, to})
						}
					}
				}
			}
			pending = nil
		}
		return false
	})
	return out
}

func pypi(repo string, t *tables) {
	f := parse(repo, "version-pypi.go")
	t.PyPILetterAliases = switchAliases(funcDecl(f, "parseLetterVersion"), "letter")
	t.PyPILegacyAliases = switchAliases(funcDecl(f, "normalizePyPILegacyPart"), "part")
	if len(t.PyPILetterAliases) == 0 || len(t.PyPILegacyAliases) == 0 {
		fatal("pypi: normalisation switches not found")
	}
}

// ---------------------------------------------------------------- output
func strs(xs []string) string {
	items := make([]string, len(xs))
	for i, s := range xs {
		items[i] = cf.Str(s)
	}
	return cf.List(items)
}

func pairs(ps []pair) string {
	items := make([]string, len(ps))
	for i, p := range ps {
		items[i] = "(" + cf.Str(p.From) + ", " + cf.Str(p.To) + ")"
	}
	return cf.List(items)
}

func show(xs []string) string { return strings.Join(quoteAll(xs), " ") }
func quoteAll(xs []string) []string {
	out := make([]string, len(xs))
	for i, s := range xs {
		out[i] = strconv.Quote(s)
	}
	return out
}
func showPairs(ps []pair) string {
	out := make([]string, len(ps))
	for i, p := range ps {
		out[i] = strconv.Quote(p.From) + "->" + strconv.Quote(p.To)
	}
	return strings.Join(out, " ")
}

func main() {
	repo := flag.String("repo", "/repo", "repository root")
	out := flag.String("out", "", "output .v file")
	jsonOut := flag.String("json", "", "output JSON file")
	flag.Parse()
	var t tables
	maven(*repo, &t)
	alpine(*repo, &t)
	packagist(*repo, &t)
	debian(*repo, &t)
	pypi(*repo, &t)

	var sb strings.Builder
	sb.WriteString("(* GENERATED by harness/cmd/semtables from <repo>/semantic/*.go (go/ast). Do not edit: regenerated on every run\n")
	sb.WriteString("   of bin/check C07; the committed copy is only the last generated one. Strings are byte lists. *)\n")
	sb.WriteString("From Coq Require Import List ZArith NArith.\nImport ListNotations.\n\n")
	w := func(comment, name, ty, val string) {
		fmt.Fprintf(&sb, "(* %s *)\nDefinition %s : %s :=\n  %s.\n\n", comment, name, ty, val)
	}
	w("version-maven.go: var keywordOrder = "+show(t.MavenKeywordOrder), "gen_maven_keyword_order", "list (list N)", strs(t.MavenKeywordOrder))
	w("version-maven.go newMavenVersion, rewrites applied in this order: "+showPairs(t.MavenAliases), "gen_maven_aliases", "list (list N * list N)", pairs(t.MavenAliases))
	w("version-maven.go newMavenVersion, only when directly followed by a number: "+showPairs(t.MavenAliasesBeforeNum), "gen_maven_aliases_before_digit", "list (list N * list N)", pairs(t.MavenAliasesBeforeNum))
	w("version-maven.go shouldTrim: "+show(t.MavenShouldTrim), "gen_maven_should_trim", "list (list N)", strs(t.MavenShouldTrim))
	w("version-maven.go newMavenNullVersionToken: the '.'-padding is \"\" instead of \"0\" against "+show(t.MavenEmptyPadFor), "gen_maven_empty_dot_padding_for", "list (list N)", strs(t.MavenEmptyPadFor))
	w("version-alpine.go weightAlpineSuffixString: position = weight; the last entry stands for the final return: "+show(t.AlpineSuffixOrder), "gen_alpine_suffix_order", "list (list N)", strs(t.AlpineSuffixOrder))
	w("version-alpine.go fetchSuffix: weight of a missing suffix", "gen_alpine_suffix_pad_weight", "Z", cf.Z(t.AlpineSuffixPadWeight))
	pw := make([]string, len(t.PackagistPrefixWeights))
	pws := make([]string, len(t.PackagistPrefixWeights))
	for i, x := range t.PackagistPrefixWeights {
		pw[i] = fmt.Sprintf("(%s, %d%%nat)", cf.Str(x.Prefix), x.Weight)
		pws[i] = fmt.Sprintf("%q=%d", x.Prefix, x.Weight)
	}
	w("version-packagist.go weighPackagistBuildCharacter, prefixes in the order tested: "+strings.Join(pws, " "), "gen_packagist_prefix_weights", "list (list N * nat)", cf.List(pw))
	w("version-packagist.go weighPackagistBuildCharacter: final return", "gen_packagist_default_weight", "nat", fmt.Sprintf("%d%%nat", t.PackagistDefaultWeight))
	w("version-debian.go weighDebianChar: weight of \"~\"", "gen_debian_tilde_weight", "Z", cf.Z(t.DebianTildeWeight))
	w("version-debian.go weighDebianChar: weight of \"\" (end of the prefix)", "gen_debian_empty_weight", "Z", cf.Z(t.DebianEmptyWeight))
	w("version-debian.go weighDebianChar: added to every non-letter", "gen_debian_non_letter_offset", "Z", cf.Z(t.DebianNonLetterOffset))
	bs := make([]string, len(t.DebianLetterBounds))
	for i, b := range t.DebianLetterBounds {
		bs[i] = cf.Z(b)
	}
	w("version-debian.go weighDebianChar: c < b0 || (c > b1 && c < b2) || c > b3 is a non-letter", "gen_debian_letter_bounds", "list Z", cf.List(bs))
	w("version-pypi.go parseLetterVersion: "+showPairs(t.PyPILetterAliases), "gen_pypi_letter_aliases", "list (list N * list N)", pairs(t.PyPILetterAliases))
	w("version-pypi.go normalizePyPILegacyPart: "+showPairs(t.PyPILegacyAliases), "gen_pypi_legacy_aliases", "list (list N * list N)", pairs(t.PyPILegacyAliases))

	// strings.ToLower on non-ASCII text goes through unicode.ToLower: the toolchain's case table for the code points
	// below the limit (Latin-1, Latin Extended-A/B, IPA, Greek, Cyrillic), as (code point, lower case) pairs
	const lowerLimit = 0x530
	var lp []string
	for r := rune(0x80); r < lowerLimit; r++ {
		if l := unicode.ToLower(r); l != r {
			lp = append(lp, fmt.Sprintf("(%d, %d)", r, l))
		}
	}
	t.UnicodeLowerPairs = len(lp)
	w("Go unicode.ToLower (toolchain table) on U+0080..U+052F, pairs that differ from the identity", "gen_unicode_lower_pairs", "list (N * N)", "["+strings.Join(lp, "; ")+"]%N")
	w("code points at or above this limit are NOT case-mapped by the model", "gen_unicode_lower_limit", "N", fmt.Sprintf("%d%%N", lowerLimit))

	// identity of this table set: lets the check verify that a compiled Generated_Tables.vo really comes from this text
	// (file times are not reliable: other processes restore the committed copy)
	sum := sha256.Sum256([]byte(sb.String()))
	id := new(big.Int).SetBytes(sum[:7])
	fmt.Fprintf(&sb, "(* identity of the tables above (first 56 bits of their SHA-256) *)\nDefinition gen_tables_id : N := %s%%N.\n", id.String())
	if *out != "" {
		old, _ := os.ReadFile(*out)
		if string(old) != sb.String() { // keep the mtime when nothing changed (no needless rebuild)
			if err := os.WriteFile(*out, []byte(sb.String()), 0o644); err != nil {
				fatal("%v", err)
			}
			fmt.Println("generated-file: changed")
		} else {
			fmt.Println("generated-file: unchanged")
		}
	}
	if *jsonOut != "" {
		b, _ := json.MarshalIndent(t, "", " ")
		if err := os.WriteFile(*jsonOut, b, 0o644); err != nil {
			fatal("%v", err)
		}
	}
	fmt.Printf("tables: maven_keywords=%d maven_aliases=%d+%d alpine_suffixes=%d pad=%d packagist=%d pypi=%d+%d\n",
		len(t.MavenKeywordOrder), len(t.MavenAliases), len(t.MavenAliasesBeforeNum), len(t.AlpineSuffixOrder), t.AlpineSuffixPadWeight,
		len(t.PackagistPrefixWeights), len(t.PyPILetterAliases), len(t.PyPILegacyAliases))
}

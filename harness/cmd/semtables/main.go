// Command semtables is the C07 table translator. It regenerates coq/theories/Semantic/Generated_Tables.v with the
// keyword / weight / spelling tables that the Coq models of the ecosystems USE.
//
// The tables are obtained by PROBING the real implementation (semantic.Parse / CompareStr and the hook
// semantic.VerifParse), not by matching the shape of the Go source: a table here says "what the code does on the
// probe set". The probe set of an ecosystem is its documented vocabulary plus every word of every string literal that
// occurs anywhere in its source file (a plain go/ast literal scan, which no refactoring of table shapes disturbs).
//
//	Maven      known qualifiers in rank order (incl. "" = release); spelling rewrites at the end of a part and directly
//	           before a digit; the values trimmed as null; the qualifiers whose '.'-padding is "" instead of "0"
//	Alpine     suffix name -> weight (from the parsed structure) and the weight an absent suffix is padded with
//	Packagist  prefix -> weight rules of the special forms (weights are ranks: only their order is observable)
//	Debian     the weight of every byte, of "~" and of the end of a run (ranks: only their order is observable)
//	PyPI       spelling normalisation of the PEP 440 letters and of the legacy parts (from the parsed structure)
//	unicode    Go's unicode.ToLower pairs below U+0530 (toolchain table)
//
// The systematic canonical-rule layer of the harness (hard-coded from the published documentation) and the
// model-vs-implementation correspondence remain the judges of these tables.
package main

import (
	"crypto/sha256"
	"encoding/hex"
	"encoding/json"
	"flag"
	"fmt"
	"go/ast"
	"go/parser"
	"go/token"
	"math/big"
	"os"
	"path/filepath"
	"sort"
	"strconv"
	"strings"
	"unicode"

	"github.com/google/osv-scalibr/semantic"

	cf "verifharness/internal/coqfmt"
)

func fatal(format string, a ...any) {
	fmt.Fprintf(os.Stderr, "semtables: "+format+"\n", a...)
	os.Exit(2)
}

type pair struct {
	From string `json:"from"`
	To   string `json:"to"`
}
type weight struct {
	Prefix string `json:"prefix"`
	Weight int64  `json:"weight"`
}
type tables struct {
	MavenKeywordOrder      []string `json:"maven_keyword_order"`
	MavenAliases           []pair   `json:"maven_aliases"`
	MavenAliasesBeforeNum  []pair   `json:"maven_aliases_before_digit"`
	MavenShouldTrim        []string `json:"maven_should_trim"`
	MavenEmptyPadFor       []string `json:"maven_empty_dot_padding_for"`
	AlpineSuffixWeights    []weight `json:"alpine_suffix_weights"`
	AlpineSuffixPadWeight  int64    `json:"alpine_suffix_pad_weight"`
	PackagistPrefixWeights []weight `json:"packagist_prefix_weights"`
	PackagistDefaultWeight int64    `json:"packagist_default_weight"`
	DebianTildeWeight      int64    `json:"debian_tilde_weight"`
	DebianEmptyWeight      int64    `json:"debian_empty_weight"`
	DebianByteWeights      []int64  `json:"debian_byte_weights"`
	PyPILetterAliases      []pair   `json:"pypi_letter_aliases"`
	PyPILegacyAliases      []pair   `json:"pypi_legacy_aliases"`
	UnicodeLowerPairs      int      `json:"unicode_lower_pairs_below_0x530"`
	ProbeSetSizes          map[string]int `json:"probe_set_sizes"`
}

// ---------------------------------------------------------------- probe sets
// every string literal of a source file, and the words (maximal letter runs) inside them
func literalWords(repo, file string) []string {
	fset := token.NewFileSet()
	f, err := parser.ParseFile(fset, filepath.Join(repo, "semantic", file), nil, 0)
	if err != nil {
		fatal("parse %s: %v", file, err)
	}
	seen := map[string]bool{}
	var out []string
	add := func(s string) {
		if !seen[s] && len(s) <= 24 {
			seen[s] = true
			out = append(out, s)
		}
	}
	ast.Inspect(f, func(n ast.Node) bool {
		lit, ok := n.(*ast.BasicLit)
		if !ok || (lit.Kind != token.STRING && lit.Kind != token.CHAR) {
			return true
		}
		s, err := strconv.Unquote(lit.Value)
		if err != nil {
			return true
		}
		add(s)
		word := ""
		for _, c := range s + " " {
			if (c >= 'a' && c <= 'z') || (c >= 'A' && c <= 'Z') {
				word += string(c)
			} else {
				if word != "" {
					add(word)
				}
				word = ""
			}
		}
		return true
	})
	return out
}

func union(xs ...[]string) []string {
	seen := map[string]bool{}
	var out []string
	for _, l := range xs {
		for _, s := range l {
			if !seen[s] {
				seen[s] = true
				out = append(out, s)
			}
		}
	}
	return out
}

func isWord(s string) bool {
	if s == "" {
		return false
	}
	for _, c := range s {
		if !((c >= 'a' && c <= 'z') || (c >= 'A' && c <= 'Z')) {
			return false
		}
	}
	return true
}

// ---------------------------------------------------------------- access to the implementation
func cmp(eco, a, b string) int {
	v, err := semantic.Parse(a, eco)
	if err != nil {
		fatal("probe: Parse(%q, %s): %v", a, eco, err)
	}
	c, err := v.CompareStr(b)
	if err != nil {
		fatal("probe: CompareStr(%q, %q) in %s: %v", a, b, eco, err)
	}
	return c
}

func dump(eco, s string) map[string]any {
	js, err := semantic.VerifParse(s, eco)
	if err != nil {
		return nil
	}
	var m map[string]any
	if err := json.Unmarshal([]byte(js), &m); err != nil {
		fatal("probe: hook JSON: %v", err)
	}
	return m
}

func unhex(v any) string {
	b, err := hex.DecodeString(v.(string))
	if err != nil {
		fatal("probe: hex: %v", err)
	}
	return string(b)
}

// dense ranks of items under a three-way comparison (items comparing equal share a rank)
func denseRanks(items []string, c func(a, b string) int) map[string]int64 {
	sorted := append([]string{}, items...)
	sort.SliceStable(sorted, func(i, j int) bool { return c(sorted[i], sorted[j]) < 0 })
	ranks := map[string]int64{}
	var r int64
	for i, it := range sorted {
		if i > 0 && c(sorted[i-1], it) != 0 {
			r++
		}
		ranks[it] = r
	}
	return ranks
}

// ---------------------------------------------------------------- Maven
func mavenTokenValue(s string, idx int) (string, bool) {
	m := dump("Maven", s)
	toks, _ := m["tokens"].([]any)
	if idx >= len(toks) {
		return "", false
	}
	return unhex(toks[idx].(map[string]any)["value"]), true
}

func maven(repo string, t *tables) {
	vocab := []string{"alpha", "beta", "milestone", "rc", "cr", "snapshot", "ga", "final", "release", "sp", "a", "b", "m", "", "0",
		"dev", "pre", "preview", "post", "jre", "x", "foo"}
	cands := union(vocab, literalWords(repo, "version-maven.go"))
	var words []string
	for _, c := range cands {
		c = strings.ToLower(c)
		if c == "" || c == "0" || isWord(c) {
			words = append(words, c)
		}
	}
	words = union(words)
	t.ProbeSetSizes["maven"] = len(words)
	// spelling at the end of a part ("1-<q>.x": the '.x' keeps the token from being trimmed) and directly before a digit
	atEnd := map[string]string{}
	for _, q := range words {
		v, ok := mavenTokenValue("1-"+q+".x", 1)
		if !ok {
			fatal("maven: no second token for %q", "1-"+q+".x")
		}
		atEnd[q] = v
		if v != q {
			t.MavenAliases = append(t.MavenAliases, pair{q, v})
		}
		// (a null value before a digit is trimmed at the hyphen the digit introduces: its spelling there is unobservable)
		if q != "" && q != "0" && v != "" && v != "0" {
			v2, ok := mavenTokenValue("1-"+q+"1.x", 1)
			if n, ok2 := mavenTokenValue("1-"+q+"1.x", 2); ok && ok2 && n == "1" && v2 != v {
				t.MavenAliasesBeforeNum = append(t.MavenAliasesBeforeNum, pair{q, v2})
			}
		}
	}
	// null values: tokens that are trimmed at the end of the version
	seenTrim := map[string]bool{}
	for _, q := range words {
		m := dump("Maven", "1-"+q)
		if toks, _ := m["tokens"].([]any); len(toks) == 1 && !seenTrim[atEnd[q]] {
			seenTrim[atEnd[q]] = true
			t.MavenShouldTrim = append(t.MavenShouldTrim, atEnd[q])
		}
	}
	sort.Strings(t.MavenShouldTrim)
	// known qualifiers: those that sort below an unknown word that is lexically tiny ("!!"); "" is probed as the absent token
	ver := func(q string) string {
		if q == "" {
			return "1"
		}
		return "1-" + q
	}
	var known []string
	seenK := map[string]bool{}
	for _, q := range words {
		v := atEnd[q]
		if v == "0" || seenK[v] || (v != "" && !isWord(v)) {
			continue
		}
		if cmp("Maven", ver(v), "1-!!") < 0 {
			seenK[v] = true
			known = append(known, v)
		}
	}
	sort.SliceStable(known, func(i, j int) bool { return cmp("Maven", ver(known[i]), ver(known[j])) < 0 })
	for i := 1; i < len(known); i++ {
		if cmp("Maven", ver(known[i-1]), ver(known[i])) == 0 {
			fatal("maven: qualifiers %q and %q share a rank", known[i-1], known[i])
		}
	}
	t.MavenKeywordOrder = known
	// '.'-padding: for a KNOWN qualifier q, "1" < "1.q" can only happen when the padding is "" (a "0" padding ranks as unknown)
	for _, q := range known {
		if q != "" && cmp("Maven", "1", "1."+q) < 0 {
			t.MavenEmptyPadFor = append(t.MavenEmptyPadFor, q)
		}
	}
}

// ---------------------------------------------------------------- Alpine
func alpine(repo string, t *tables) {
	vocab := []string{"alpha", "beta", "pre", "rc", "cvs", "svn", "git", "hg", "p"}
	var words []string
	for _, c := range union(vocab, literalWords(repo, "version-alpine.go")) {
		if isWord(c) && c == strings.ToLower(c) {
			words = append(words, c)
		}
	}
	t.ProbeSetSizes["alpine"] = len(words)
	for _, w := range words {
		m := dump("Alpine", "1_"+w)
		if m == nil {
			continue
		}
		sufs, _ := m["suffixes"].([]any)
		rem := unhex(m["remainder"])
		if len(sufs) == 1 && rem == "" && !m["invalid"].(bool) { // the whole word was taken as a suffix name
			t.AlpineSuffixWeights = append(t.AlpineSuffixWeights, weight{w, int64(sufs[0].(map[string]any)["weight"].(float64))})
		}
	}
	sort.SliceStable(t.AlpineSuffixWeights, func(i, j int) bool { return t.AlpineSuffixWeights[i].Weight < t.AlpineSuffixWeights[j].Weight })
	if len(t.AlpineSuffixWeights) == 0 {
		fatal("alpine: no suffix found by probing")
	}
	// the weight of an absent suffix: equal to a suffix it ties with, else just above the heaviest suffix it beats
	pad, found := int64(0), false
	for _, s := range t.AlpineSuffixWeights {
		switch c := cmp("Alpine", "1", "1_"+s.Prefix); {
		case c == 0:
			pad, found = s.Weight, true
		case c > 0 && !found:
			pad = s.Weight + 1
		}
		if found {
			break
		}
	}
	t.AlpineSuffixPadWeight = pad
}

// ---------------------------------------------------------------- Packagist
func packagist(repo string, t *tables) {
	vocab := []string{"dev", "alpha", "a", "beta", "b", "RC", "rc", "#", "pl", "p", "patch", "stable", "zz"}
	var cands []string
	for _, c := range union(vocab, literalWords(repo, "version-packagist.go")) {
		if isWord(c) || c == "#" {
			cands = append(cands, c)
			if isWord(c) {
				cands = append(cands, strings.ToUpper(c), strings.ToLower(c))
			}
		}
	}
	cands = union(cands)
	t.ProbeSetSizes["packagist"] = len(cands)
	ver := func(q string) string { return "1.0-" + q }
	c3 := func(a, b string) int { return cmp("Packagist", ver(a), ver(b)) }
	ranks := denseRanks(cands, c3)
	def := ranks["zz"]
	t.PackagistDefaultWeight = def
	// a candidate is a prefix rule when it has a non-default weight that survives appending letters; keep the minimal ones
	var rules []weight
	for _, c := range cands {
		if ranks[c] == def {
			continue
		}
		if c3(c+"zq", c) != 0 {
			continue // not a prefix rule (the weight does not carry over to longer words)
		}
		rules = append(rules, weight{c, ranks[c]})
	}
	sort.SliceStable(rules, func(i, j int) bool { return len(rules[i].Prefix) < len(rules[j].Prefix) })
	var minimal []weight
	for _, r := range rules {
		redundant := false
		for _, m := range minimal {
			if strings.HasPrefix(r.Prefix, m.Prefix) && m.Weight == r.Weight {
				redundant = true
			}
		}
		if !redundant {
			minimal = append(minimal, r)
		}
	}
	// longer prefixes first, so that a longer rule with another weight wins over its own prefix
	sort.SliceStable(minimal, func(i, j int) bool { return len(minimal[i].Prefix) > len(minimal[j].Prefix) })
	t.PackagistPrefixWeights = minimal
}

// ---------------------------------------------------------------- Debian
func debian(t *tables) {
	// the run "y<c>" inside "0:1y<c>-1": epoch and revision are present, so ':' and '-' are ordinary characters; the
	// character is not at either end, so TrimSpace leaves it alone
	ver := func(c string) string { return "0:1y" + c + "-1" }
	var items []string
	for i := 0; i < 256; i++ {
		if i >= '0' && i <= '9' {
			continue // digits never occur in a non-digit run
		}
		items = append(items, string([]byte{byte(i)}))
	}
	items = append(items, "") // the end of the run
	t.ProbeSetSizes["debian"] = len(items)
	ranks := denseRanks(items, func(a, b string) int { return cmp("Debian", ver(a), ver(b)) })
	t.DebianTildeWeight = ranks["~"]
	t.DebianEmptyWeight = ranks[""]
	t.DebianByteWeights = make([]int64, 256)
	for i := 0; i < 256; i++ {
		t.DebianByteWeights[i] = ranks[string([]byte{byte(i)})] // digits: 0, unused
	}
}

// ---------------------------------------------------------------- PyPI
func pypi(repo string, t *tables) {
	vocab := []string{"a", "b", "c", "rc", "alpha", "beta", "pre", "preview", "post", "rev", "r", "dev", "final"}
	var words []string
	for _, c := range union(vocab, literalWords(repo, "version-pypi.go")) {
		if isWord(c) && c == strings.ToLower(c) {
			words = append(words, c)
		}
	}
	t.ProbeSetSizes["pypi"] = len(words)
	for _, w := range words {
		// PEP 440 letters: "1.0<w>1" -> the letter of whichever of pre / post / dev was recognised
		if m := dump("PyPI", "1.0"+w+"1"); m != nil {
			if leg, _ := m["legacy"].([]any); len(leg) == 0 {
				for _, k := range []string{"pre", "post", "dev"} {
					l := unhex(m[k].(map[string]any)["letter"])
					if l != "" && l != w {
						t.PyPILetterAliases = append(t.PyPILetterAliases, pair{w, l})
					}
				}
			}
		}
	}
	// legacy parts: "zz.<w>.zz" never matches PEP 440; its parts are "*zz", normalised <w>, "*zz", "*final"
	legacyNorm := func(w string) (string, bool) {
		m := dump("PyPI", "zz."+w+".zz")
		if m == nil {
			return "", false
		}
		leg, _ := m["legacy"].([]any)
		if len(leg) != 4 {
			return "", false
		}
		return strings.TrimPrefix(unhex(leg[1]), "*"), true
	}
	for _, w := range append(words, "-") {
		if n, ok := legacyNorm(w); ok && n != w {
			t.PyPILegacyAliases = append(t.PyPILegacyAliases, pair{w, n})
		}
	}
}

// ---------------------------------------------------------------- output
func strs(xs []string) string {
	items := make([]string, len(xs))
	for i, s := range xs {
		items[i] = cf.Str(s)
	}
	return cf.List(items)
}

func pairs(ps []pair) string {
	items := make([]string, len(ps))
	for i, p := range ps {
		items[i] = "(" + cf.Str(p.From) + ", " + cf.Str(p.To) + ")"
	}
	return cf.List(items)
}

func show(xs []string) string {
	out := make([]string, len(xs))
	for i, s := range xs {
		out[i] = strconv.Quote(s)
	}
	return strings.Join(out, " ")
}

func showPairs(ps []pair) string {
	out := make([]string, len(ps))
	for i, p := range ps {
		out[i] = strconv.Quote(p.From) + "->" + strconv.Quote(p.To)
	}
	return strings.Join(out, " ")
}

func showWeights(ws []weight) string {
	out := make([]string, len(ws))
	for i, x := range ws {
		out[i] = fmt.Sprintf("%q=%d", x.Prefix, x.Weight)
	}
	return strings.Join(out, " ")
}

func main() {
	repo := flag.String("repo", "/repo", "repository root (for the string-literal scan; the probed code is the one linked in)")
	out := flag.String("out", "", "output .v file")
	jsonOut := flag.String("json", "", "output JSON file")
	flag.Parse()
	t := tables{ProbeSetSizes: map[string]int{}}
	maven(*repo, &t)
	alpine(*repo, &t)
	packagist(*repo, &t)
	debian(&t)
	pypi(*repo, &t)

	var sb strings.Builder
	sb.WriteString("(* GENERATED by harness/cmd/semtables. Do not edit: regenerated on every run of bin/check C07; the committed copy is\n")
	sb.WriteString("   only the last generated one.  Each table says WHAT THE IMPLEMENTATION DOES ON THE PROBE SET: it is obtained by running\n")
	sb.WriteString("   semantic.Parse / CompareStr / VerifParse of the tree under test on probe versions built from the documented vocabulary\n")
	sb.WriteString("   of the ecosystem and from every word of every string literal of its source file -- not from the shape of the source.\n")
	sb.WriteString("   Weights of Packagist and Debian are ranks (only their order is observable).  Strings are byte lists. *)\n")
	sb.WriteString("From Coq Require Import List ZArith NArith.\nImport ListNotations.\n\n")
	w := func(comment, name, ty, val string) {
		fmt.Fprintf(&sb, "(* %s *)\nDefinition %s : %s :=\n  %s.\n\n", comment, name, ty, val)
	}
	w("Maven: known qualifiers, lowest first (\"\" is the release; every other word ranks above all of them): "+show(t.MavenKeywordOrder), "gen_maven_keyword_order", "list (list N)", strs(t.MavenKeywordOrder))
	w("Maven: spelling of a token at the end of its part: "+showPairs(t.MavenAliases), "gen_maven_aliases", "list (list N * list N)", pairs(t.MavenAliases))
	w("Maven: spelling of a token directly followed by a digit, where it differs: "+showPairs(t.MavenAliasesBeforeNum), "gen_maven_aliases_before_digit", "list (list N * list N)", pairs(t.MavenAliasesBeforeNum))
	w("Maven: token values trimmed as null at the end of a version: "+show(t.MavenShouldTrim), "gen_maven_should_trim", "list (list N)", strs(t.MavenShouldTrim))
	w("Maven: known qualifiers that sort above an absent '.'-token (its padding is \"\" instead of \"0\"): "+show(t.MavenEmptyPadFor), "gen_maven_empty_dot_padding_for", "list (list N)", strs(t.MavenEmptyPadFor))
	aw := make([]string, len(t.AlpineSuffixWeights))
	for i, x := range t.AlpineSuffixWeights {
		aw[i] = fmt.Sprintf("(%s, %s)", cf.Str(x.Prefix), cf.Z(x.Weight))
	}
	w("Alpine: suffix name -> weight, as stored in the parsed structure: "+showWeights(t.AlpineSuffixWeights), "gen_alpine_suffix_weights", "list (list N * Z)", cf.List(aw))
	w("Alpine: weight of an absent suffix (the suffix it ties with, else just above the heaviest one it beats)", "gen_alpine_suffix_pad_weight", "Z", cf.Z(t.AlpineSuffixPadWeight))
	pw := make([]string, len(t.PackagistPrefixWeights))
	for i, x := range t.PackagistPrefixWeights {
		pw[i] = fmt.Sprintf("(%s, %d%%nat)", cf.Str(x.Prefix), x.Weight)
	}
	w("Packagist: prefix -> rank of the special forms, longer prefixes first: "+showWeights(t.PackagistPrefixWeights), "gen_packagist_prefix_weights", "list (list N * nat)", cf.List(pw))
	w("Packagist: rank of every other word", "gen_packagist_default_weight", "nat", fmt.Sprintf("%d%%nat", t.PackagistDefaultWeight))
	w("Debian: rank of \"~\"", "gen_debian_tilde_weight", "Z", cf.Z(t.DebianTildeWeight))
	w("Debian: rank of the end of a non-digit run", "gen_debian_empty_weight", "Z", cf.Z(t.DebianEmptyWeight))
	bw := make([]string, 256)
	for i, x := range t.DebianByteWeights {
		bw[i] = cf.Z(x)
	}
	w("Debian: rank of a character of a non-digit run, indexed by its first byte (digits: unused)", "gen_debian_byte_weights", "list Z", cf.List(bw))
	w("PyPI: spellings of the PEP 440 pre / post / dev letters: "+showPairs(t.PyPILetterAliases), "gen_pypi_letter_aliases", "list (list N * list N)", pairs(t.PyPILetterAliases))
	w("PyPI: spellings of legacy parts: "+showPairs(t.PyPILegacyAliases), "gen_pypi_legacy_aliases", "list (list N * list N)", pairs(t.PyPILegacyAliases))

	const lowerLimit = 0x530
	var lp []string
	for r := rune(0x80); r < lowerLimit; r++ {
		if l := unicode.ToLower(r); l != r {
			lp = append(lp, fmt.Sprintf("(%d, %d)", r, l))
		}
	}
	t.UnicodeLowerPairs = len(lp)
	w("Go unicode.ToLower (toolchain table) on U+0080..U+052F, pairs that differ from the identity", "gen_unicode_lower_pairs", "list (N * N)", "["+strings.Join(lp, "; ")+"]%N")
	w("code points at or above this limit are NOT case-mapped by the model", "gen_unicode_lower_limit", "N", fmt.Sprintf("%d%%N", lowerLimit))

	sum := sha256.Sum256([]byte(sb.String()))
	id := new(big.Int).SetBytes(sum[:7])
	fmt.Fprintf(&sb, "(* identity of the tables above (first 56 bits of their SHA-256) *)\nDefinition gen_tables_id : N := %s%%N.\n", id.String())

	if *out != "" {
		old, _ := os.ReadFile(*out)
		if string(old) != sb.String() {
			if err := os.WriteFile(*out, []byte(sb.String()), 0o644); err != nil {
				fatal("%v", err)
			}
			fmt.Println("generated-file: changed")
		} else {
			fmt.Println("generated-file: unchanged")
		}
	}
	if *jsonOut != "" {
		b, _ := json.MarshalIndent(t, "", " ")
		if err := os.WriteFile(*jsonOut, b, 0o644); err != nil {
			fatal("%v", err)
		}
	}
	fmt.Printf("tables (probed): maven_keywords=%d maven_aliases=%d+%d alpine_suffixes=%d pad=%d packagist=%d pypi=%d+%d\n",
		len(t.MavenKeywordOrder), len(t.MavenAliases), len(t.MavenAliasesBeforeNum), len(t.AlpineSuffixWeights), t.AlpineSuffixPadWeight,
		len(t.PackagistPrefixWeights), len(t.PyPILetterAliases), len(t.PyPILegacyAliases))
}

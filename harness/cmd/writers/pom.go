package main

import (
	"encoding/json"
	"errors"
	"math/rand"
)

type pomEmitter struct{}

func (pomEmitter) header() string                        { return "" }
func (pomEmitter) caseType() string                      { return "mcase" }
func (pomEmitter) generate(*rand.Rand, int) []anyCase    { return nil }
func (pomEmitter) fromJSON(json.RawMessage) (anyCase, error) { return nil, errors.New("todo") }

package main

import (
	"encoding/json"
	"encoding/xml"
	"fmt"
	"io"
	"math/rand"
	"os"
	"path/filepath"
	"regexp"
	"sort"
	"strings"

	"deps.dev/util/resolve"
	"deps.dev/util/resolve/dep"
	scalibrfs "github.com/google/osv-scalibr/fs"
	"github.com/google/osv-scalibr/guidedremediation"
	"github.com/google/osv-scalibr/guidedremediation/result"

	cf "verifharness/internal/coqfmt"
)

// ---------------------------------------------------------------- pom.xml generator

type pDep struct {
	G, A, V    string // V == "" : no <version> element
	Type       string
	Classifier string
	Scope      string
	Optional   bool
	Excl       bool
	VStyle     int // 0 plain, 1 CDATA, 2 blanks around the text, 3 comment inside <version>
	Comment    string
}

type pProfile struct {
	ID    string
	Props [][2]string
	Deps  []pDep
	Mgmt  []pDep
}

type pPlugin struct {
	G, A, V string
	Deps    []pDep
	Managed bool // under <pluginManagement>
}

type pParentRef struct{ G, A, V, Rel string }

type pPom struct {
	NS, Decl    bool
	LeadComment string
	TailComment string
	PI          bool
	G, A, V     string
	Packaging   string
	Parent      *pParentRef
	Props       [][2]string
	Deps        []pDep
	HasDeps     bool
	Mgmt        []pDep
	HasMgmt     bool
	Profiles    []pProfile
	Plugins     []pPlugin
	Ind         string
	NL          string
	Order       []string // order of the top-level blocks
}

func esc(s string) string {
	var sb strings.Builder
	xml.EscapeText(&sb, []byte(s))
	return sb.String()
}

func (p *pPom) dep(sb *strings.Builder, d pDep, ind string) {
	nl, i := p.NL, p.Ind
	if d.Comment != "" {
		sb.WriteString(ind + "<!-- " + d.Comment + " -->" + nl)
	}
	sb.WriteString(ind + "<dependency>" + nl)
	sb.WriteString(ind + i + "<groupId>" + d.G + "</groupId>" + nl)
	sb.WriteString(ind + i + "<artifactId>" + d.A + "</artifactId>" + nl)
	if d.V != "" {
		switch d.VStyle {
		case 1:
			sb.WriteString(ind + i + "<version><![CDATA[" + d.V + "]]></version>" + nl)
		case 2:
			sb.WriteString(ind + i + "<version>" + nl + ind + i + i + esc(d.V) + nl + ind + i + "</version>" + nl)
		case 3:
			sb.WriteString(ind + i + "<version>" + esc(d.V) + "<!-- pinned --></version>" + nl)
		default:
			sb.WriteString(ind + i + "<version>" + esc(d.V) + "</version>" + nl)
		}
	}
	if d.Type != "" {
		sb.WriteString(ind + i + "<type>" + d.Type + "</type>" + nl)
	}
	if d.Classifier != "" {
		sb.WriteString(ind + i + "<classifier>" + d.Classifier + "</classifier>" + nl)
	}
	if d.Scope != "" {
		sb.WriteString(ind + i + "<scope>" + d.Scope + "</scope>" + nl)
	}
	if d.Optional {
		sb.WriteString(ind + i + "<optional>true</optional>" + nl)
	}
	if d.Excl {
		sb.WriteString(ind + i + "<exclusions>" + nl + ind + i + i + "<exclusion>" + nl +
			ind + i + i + i + "<groupId>org.excluded</groupId>" + nl + ind + i + i + i + "<artifactId>ex</artifactId>" + nl +
			ind + i + i + "</exclusion>" + nl + ind + i + "</exclusions>" + nl)
	}
	sb.WriteString(ind + "</dependency>" + nl)
}

func (p *pPom) deps(sb *strings.Builder, ds []pDep, ind string) {
	if len(ds) == 0 {
		sb.WriteString(ind + "<dependencies/>" + p.NL)
		return
	}
	sb.WriteString(ind + "<dependencies>" + p.NL)
	for _, d := range ds {
		p.dep(sb, d, ind+p.Ind)
	}
	sb.WriteString(ind + "</dependencies>" + p.NL)
}

func (p *pPom) props(sb *strings.Builder, ps [][2]string, ind string) {
	sb.WriteString(ind + "<properties>" + p.NL)
	for _, kv := range ps {
		sb.WriteString(ind + p.Ind + "<" + kv[0] + ">" + esc(kv[1]) + "</" + kv[0] + ">" + p.NL)
	}
	sb.WriteString(ind + "</properties>" + p.NL)
}

func (p *pPom) render() string {
	var sb strings.Builder
	nl, i := p.NL, p.Ind
	if p.Decl {
		sb.WriteString("<?xml version=\"1.0\" encoding=\"UTF-8\"?>" + nl)
	}
	if p.LeadComment != "" {
		sb.WriteString("<!-- " + p.LeadComment + " -->" + nl)
	}
	if p.NS {
		sb.WriteString("<project xmlns=\"http://maven.apache.org/POM/4.0.0\" xmlns:xsi=\"http://www.w3.org/2001/XMLSchema-instance\"" + nl +
			i + "xsi:schemaLocation=\"http://maven.apache.org/POM/4.0.0 http://maven.apache.org/xsd/maven-4.0.0.xsd\">" + nl)
	} else {
		sb.WriteString("<project>" + nl)
	}
	sb.WriteString(i + "<modelVersion>4.0.0</modelVersion>" + nl)
	if p.PI {
		sb.WriteString(i + "<?keep this?>" + nl)
	}
	for _, blk := range p.Order {
		switch blk {
		case "coords":
			if p.G != "" {
				sb.WriteString(i + "<groupId>" + p.G + "</groupId>" + nl)
			}
			sb.WriteString(i + "<artifactId>" + p.A + "</artifactId>" + nl)
			if p.V != "" {
				sb.WriteString(i + "<version>" + p.V + "</version>" + nl)
			}
			if p.Packaging != "" {
				sb.WriteString(i + "<packaging>" + p.Packaging + "</packaging>" + nl)
			}
			sb.WriteString(i + "<name>demo &amp; co</name>" + nl)
		case "parent":
			if p.Parent != nil {
				sb.WriteString(i + "<parent>" + nl + i + i + "<groupId>" + p.Parent.G + "</groupId>" + nl + i + i + "<artifactId>" + p.Parent.A + "</artifactId>" + nl +
					i + i + "<version>" + p.Parent.V + "</version>" + nl)
				if p.Parent.Rel != "" {
					sb.WriteString(i + i + "<relativePath>" + p.Parent.Rel + "</relativePath>" + nl)
				}
				sb.WriteString(i + "</parent>" + nl)
			}
		case "props":
			if len(p.Props) > 0 {
				p.props(&sb, p.Props, i)
			}
		case "deps":
			if p.HasDeps {
				p.deps(&sb, p.Deps, i)
			}
		case "mgmt":
			if p.HasMgmt {
				sb.WriteString(i + "<dependencyManagement>" + nl)
				p.deps(&sb, p.Mgmt, i+i)
				sb.WriteString(i + "</dependencyManagement>" + nl)
			}
		case "profiles":
			if len(p.Profiles) > 0 {
				sb.WriteString(i + "<profiles>" + nl)
				for _, pr := range p.Profiles {
					sb.WriteString(i + i + "<profile>" + nl + i + i + i + "<id>" + pr.ID + "</id>" + nl)
					if len(pr.Props) > 0 {
						p.props(&sb, pr.Props, i+i+i)
					}
					if len(pr.Deps) > 0 {
						p.deps(&sb, pr.Deps, i+i+i)
					}
					if len(pr.Mgmt) > 0 {
						sb.WriteString(i + i + i + "<dependencyManagement>" + nl)
						p.deps(&sb, pr.Mgmt, i+i+i+i)
						sb.WriteString(i + i + i + "</dependencyManagement>" + nl)
					}
					sb.WriteString(i + i + "</profile>" + nl)
				}
				sb.WriteString(i + "</profiles>" + nl)
			}
		case "build":
			if len(p.Plugins) > 0 {
				sb.WriteString(i + "<build>" + nl)
				for _, managed := range []bool{true, false} {
					var sel []pPlugin
					for _, pl := range p.Plugins {
						if pl.Managed == managed {
							sel = append(sel, pl)
						}
					}
					if len(sel) == 0 {
						continue
					}
					ind := i + i
					if managed {
						sb.WriteString(i + i + "<pluginManagement>" + nl)
						ind = i + i + i
					}
					sb.WriteString(ind + "<plugins>" + nl)
					for _, pl := range sel {
						sb.WriteString(ind + i + "<plugin>" + nl + ind + i + i + "<groupId>" + pl.G + "</groupId>" + nl + ind + i + i + "<artifactId>" + pl.A + "</artifactId>" + nl)
						if pl.V != "" {
							sb.WriteString(ind + i + i + "<version>" + pl.V + "</version>" + nl)
						}
						sb.WriteString(ind + i + i + "<configuration><release>11</release><!-- cfg --></configuration>" + nl)
						if len(pl.Deps) > 0 {
							p.deps(&sb, pl.Deps, ind+i+i)
						}
						sb.WriteString(ind + i + "</plugin>" + nl)
					}
					sb.WriteString(ind + "</plugins>" + nl)
					if managed {
						sb.WriteString(i + i + "</pluginManagement>" + nl)
					}
				}
				sb.WriteString(i + "</build>" + nl)
			}
		}
	}
	sb.WriteString("</project>" + nl)
	if p.TailComment != "" {
		sb.WriteString("<!-- " + p.TailComment + " -->" + nl)
	}
	return sb.String()
}

var (
	mGroups    = []string{"org.example", "com.acme", "io.x"}
	mArtifacts = []string{"alpha", "beta", "gamma", "delta-core", "eps_lib", "zeta"}
	mLiterals  = []string{"1.2.3", "2.0", "1.0.0-SNAPSHOT", "[1.0,2.0)", "4.12", "32.1.3-jre", "0.9", "1"}
	mNewVers   = []string{"2.0.0", "1.10", "3", "1", "33.0-jre", "1.9.1-jre", "1.5", "1.2.4", "5.0.0.RELEASE", "2", "1-jre", "10.1"}
)

type propEnv struct {
	defs [][2]string
	n    int
}

// version text for a dependency, possibly through properties that get defined in env
func genVersion(rng *rand.Rand, env *propEnv) string {
	newProp := func(val string) string {
		env.n++
		name := fmt.Sprintf("%s%d.version", pick(rng, []string{"lib", "dep", "x"}), env.n)
		if rng.Intn(4) == 0 {
			name = fmt.Sprintf("v%d", env.n)
		}
		env.defs = append(env.defs, [2]string{name, val})
		return name
	}
	switch r := rng.Intn(100); {
	case r < 50:
		return pick(rng, mLiterals)
	case r < 70:
		return "${" + newProp(pick(rng, mLiterals)) + "}"
	case r < 80:
		return pick(rng, []string{"1.", "2.0.", "1"}) + "${" + newProp(pick(rng, []string{"5", "0", "12"})) + "}"
	case r < 88:
		return "${" + newProp(pick(rng, []string{"32.0", "1.1", "7"})) + "}" + pick(rng, []string{"-jre", ".Final", "-SNAPSHOT"})
	case r < 94:
		return "${" + newProp(pick(rng, []string{"1", "4"})) + "}" + pick(rng, []string{".", "-", ".0."}) + "${" + newProp(pick(rng, []string{"2", "12"})) + "}"
	case r < 97 && len(env.defs) > 0: // share an existing property
		return "${" + env.defs[rng.Intn(len(env.defs))][0] + "}"
	default:
		return "${undefined.prop}"
	}
}

func genDeps(rng *rand.Rand, env *propEnv, n int, allowNoVersion bool, used map[string]bool) []pDep {
	var out []pDep
	for k := 0; k < n; k++ {
		d := pDep{G: pick(rng, mGroups), A: pick(rng, mArtifacts)}
		if rng.Intn(6) == 0 {
			d.Classifier = pick(rng, []string{"tests", "sources"})
		}
		if rng.Intn(8) == 0 {
			d.Type = pick(rng, []string{"pom", "test-jar", "jar"})
		}
		key := d.G + ":" + d.A + ":" + d.Type + ":" + d.Classifier
		if d.Type == "jar" {
			key = d.G + ":" + d.A + "::" + d.Classifier
		}
		if used[key] {
			continue
		}
		used[key] = true
		if !(allowNoVersion && rng.Intn(6) == 0) {
			d.V = genVersion(rng, env)
		}
		if rng.Intn(5) == 0 {
			d.Scope = pick(rng, []string{"test", "provided", "runtime"})
		}
		d.Optional = rng.Intn(10) == 0
		d.Excl = rng.Intn(10) == 0
		switch r := rng.Intn(240); {
		case r == 0:
			d.VStyle = 2
		case r == 1:
			d.VStyle = 3
		case r < 30:
			d.VStyle = 1
		}
		if rng.Intn(8) == 0 {
			d.Comment = pick(rng, []string{"keep in sync", "see issue #12 <-> 13", "TODO"})
		}
		out = append(out, d)
	}
	return out
}

func genPom(rng *rand.Rand, isParent bool, depth int) *pPom {
	p := &pPom{NS: rng.Intn(3) > 0, Decl: rng.Intn(4) > 0, G: "com.mycompany", A: "app", V: "1.0", Ind: pick(rng, []string{"  ", "    ", "\t"}), NL: "\n"}
	if rng.Intn(10) == 0 {
		p.NL = "\r\n"
	}
	if isParent {
		p.A = fmt.Sprintf("parent%d", depth)
		p.Packaging = "pom"
		p.V = "1.1.1"
	}
	if rng.Intn(5) == 0 {
		p.LeadComment = "generated; do not edit"
	}
	if rng.Intn(6) == 0 {
		p.TailComment = "end"
	}
	p.PI = rng.Intn(12) == 0
	env := &propEnv{}
	if rng.Intn(10) < 8 {
		p.HasDeps = true
		p.Deps = genDeps(rng, env, rng.Intn(5), true, map[string]bool{})
	}
	if rng.Intn(10) < 5 {
		p.HasMgmt = true
		p.Mgmt = genDeps(rng, env, rng.Intn(4), false, map[string]bool{})
	}
	if rng.Intn(10) < 3 {
		for k := 0; k < 1+rng.Intn(2); k++ {
			penv := &propEnv{n: 100 * (k + 1)}
			pr := pProfile{ID: fmt.Sprintf("profile-%d", k+1)}
			pr.Deps = genDeps(rng, penv, rng.Intn(3), false, map[string]bool{})
			if rng.Intn(2) == 0 {
				pr.Mgmt = genDeps(rng, penv, 1+rng.Intn(2), false, map[string]bool{})
			}
			// profile properties: in the profile or at project level
			for _, d := range penv.defs {
				if rng.Intn(2) == 0 {
					pr.Props = append(pr.Props, d)
				} else {
					env.defs = append(env.defs, d)
				}
			}
			if len(pr.Deps)+len(pr.Mgmt) > 0 {
				p.Profiles = append(p.Profiles, pr)
			}
		}
	}
	if rng.Intn(10) < 3 {
		for k := 0; k < 1+rng.Intn(2); k++ {
			pl := pPlugin{G: "org.plugins", A: fmt.Sprintf("plug-%d", k+1), V: pick(rng, []string{"3.1", "", "2.5.1"}), Managed: rng.Intn(2) == 0}
			pl.Deps = genDeps(rng, env, rng.Intn(3), false, map[string]bool{})
			p.Plugins = append(p.Plugins, pl)
		}
	}
	p.Props = append(p.Props, [2]string{"project.build.sourceEncoding", "UTF-8"})
	p.Props = append(p.Props, env.defs...)
	if rng.Intn(3) == 0 {
		p.Props = p.Props[1:]
	}
	rng.Shuffle(len(p.Props), func(a, b int) { p.Props[a], p.Props[b] = p.Props[b], p.Props[a] })
	p.Order = []string{"coords", "parent", "props", "deps", "mgmt", "profiles", "build"}
	if rng.Intn(3) == 0 {
		rng.Shuffle(len(p.Order), func(a, b int) { p.Order[a], p.Order[b] = p.Order[b], p.Order[a] })
	}
	return p
}

// genMultiOrigin: one property name defined in several origins (project properties, two or three
// profiles, the local parent, a profile of the parent) with different values, and in each origin a
// dependency (artifact mo-*) whose version is ${name}.
func genMultiOrigin(rng *rand.Rand) []pomFile {
	name := pick(rng, []string{"lib.version", "x", "dep.ver"})
	ref := "${" + name + "}"
	vals := []string{"1.0.0", "2.0.0", "3.1", "4.12", "5.0", "6.0.1"}
	rng.Shuffle(len(vals), func(a, b int) { vals[a], vals[b] = vals[b], vals[a] })
	child := genPom(rng, false, 0)
	child.Profiles, child.Plugins = nil, nil
	strip := func(p *pPom) { // no other use of the shared name
		var ps [][2]string
		for _, kv := range p.Props {
			if kv[0] != name {
				ps = append(ps, kv)
			}
		}
		p.Props = ps
	}
	strip(child)
	if rng.Intn(10) < 7 {
		child.Props = append(child.Props, [2]string{name, vals[0]})
		if rng.Intn(10) < 7 {
			child.HasDeps = true
			child.Deps = append(child.Deps, pDep{G: "org.multi", A: "mo-proj", V: ref})
		}
	}
	np := 2 + rng.Intn(2)
	for k := 0; k < np; k++ {
		pr := pProfile{ID: fmt.Sprintf("prof-%d", k+1)}
		d := pDep{G: "org.multi", A: fmt.Sprintf("mo-p%d", k+1), V: ref}
		if rng.Intn(3) == 0 {
			pr.Mgmt = []pDep{d}
		} else {
			pr.Deps = []pDep{d}
		}
		if k < 2 || rng.Intn(2) == 0 {
			pr.Props = [][2]string{{name, vals[1+k]}}
		}
		if rng.Intn(4) == 0 {
			pr.Props = append(pr.Props, [2]string{"other", "1"})
		}
		child.Profiles = append(child.Profiles, pr)
	}
	if rng.Intn(3) == 0 { // the later profile first in the file
		child.Profiles[0], child.Profiles[1] = child.Profiles[1], child.Profiles[0]
	}
	chain := []pomFile{{Path: "pom.xml", Pom: child}}
	if rng.Intn(2) == 0 {
		chain[0].Path = "child/pom.xml"
		par := genPom(rng, true, 1)
		par.Profiles, par.Plugins = nil, nil
		strip(par)
		if rng.Intn(2) == 0 {
			par.Props = append(par.Props, [2]string{name, vals[4]})
			if rng.Intn(2) == 0 {
				par.HasDeps = true
				par.Deps = append(par.Deps, pDep{G: "org.multi", A: "mo-par", V: ref})
			}
		}
		if rng.Intn(2) == 0 {
			par.Profiles = []pProfile{{ID: "par-prof", Props: [][2]string{{name, vals[5]}}, Deps: []pDep{{G: "org.multi", A: "mo-parprof", V: ref}}}}
		}
		child.Parent = &pParentRef{G: par.G, A: par.A, V: par.V, Rel: "../pom.xml"}
		chain = append(chain, pomFile{Path: "pom.xml", Pom: par})
	}
	return chain
}

// genAddedShape: where the chain has a <dependencyManagement>: 0 nowhere, 1 at the top level of the project
// (possibly empty), 2 only inside a profile of the project, 3 only in the local parent.
func genAddedShape(rng *rand.Rand, shape int) []pomFile {
	child := genPom(rng, false, 0)
	child.HasMgmt, child.Mgmt = false, nil
	for i := range child.Profiles {
		child.Profiles[i].Mgmt = nil
	}
	var keep []pProfile
	for _, pr := range child.Profiles {
		if len(pr.Deps) > 0 {
			keep = append(keep, pr)
		}
	}
	child.Profiles = keep
	chain := []pomFile{{Path: "pom.xml", Pom: child}}
	switch shape {
	case 1:
		child.HasMgmt = true
		child.Mgmt = genDeps(rng, &propEnv{n: 700}, rng.Intn(3), false, map[string]bool{})
		for i := range child.Mgmt {
			if strings.Contains(child.Mgmt[i].V, "${") {
				child.Mgmt[i].V = "3.3"
			}
		}
	case 2:
		pr := pProfile{ID: "legacy", Mgmt: []pDep{{G: "org.prof", A: "managed-in-profile", V: "1.4"}}}
		if rng.Intn(2) == 0 {
			pr.Deps = []pDep{{G: "org.prof", A: "dep-in-profile", V: "0.3"}}
		}
		child.Profiles = append(child.Profiles, pr)
	case 3:
		chain[0].Path = "child/pom.xml"
		par := genPom(rng, true, 1)
		par.Profiles, par.Plugins = nil, nil
		par.HasMgmt = true
		par.Mgmt = []pDep{{G: "org.par", A: "managed-in-parent", V: "2.4"}}
		child.Parent = &pParentRef{G: par.G, A: par.A, V: par.V, Rel: "../pom.xml"}
		chain = append(chain, pomFile{Path: "pom.xml", Pom: par})
	}
	return chain
}

type pomFile struct {
	Path string `json:"path"`
	Pom  *pPom  `json:"pom"`
}

// genProject returns the poms of one case: the main pom first, then its local parent chain.
func genProject(rng *rand.Rand) []pomFile {
	child := genPom(rng, false, 0)
	main := "pom.xml"
	chain := []pomFile{{Pom: child}}
	if rng.Intn(10) < 4 { // local parent (and sometimes a grandparent)
		main = "child/pom.xml"
		parent := genPom(rng, true, 1)
		rel := ""
		parentPath := "pom.xml" // default ../pom.xml
		if rng.Intn(2) == 0 {
			rel = "../parent/pom.xml"
			parentPath = "parent/pom.xml"
			if rng.Intn(3) == 0 {
				rel = "../parent" // directory form
			}
		}
		child.Parent = &pParentRef{G: parent.G, A: parent.A, V: parent.V, Rel: rel}
		if rng.Intn(3) == 0 {
			child.G = "" // inherited
		}
		// the child may use properties defined in the parent
		if len(parent.Props) > 0 && len(child.Deps) > 0 && rng.Intn(2) == 0 {
			pp := parent.Props[rng.Intn(len(parent.Props))]
			if pp[0] != "project.build.sourceEncoding" {
				child.Deps[rng.Intn(len(child.Deps))].V = "${" + pp[0] + "}"
			}
		}
		chain = append(chain, pomFile{Path: parentPath, Pom: parent})
		if rng.Intn(5) < 2 {
			gp := genPom(rng, true, 2)
			parent.Parent = &pParentRef{G: gp.G, A: gp.A, V: gp.V, Rel: "../gp/pom.xml"}
			// the parent may inherit its groupId and/or version from the grandparent (the child still names them)
			child.Parent.G, child.Parent.V = parent.G, parent.V
			if rng.Intn(2) == 0 {
				parent.G = ""
			}
			if rng.Intn(2) == 0 {
				parent.V = ""
			}
			gpPath := "gp/pom.xml"
			if parentPath == "pom.xml" {
				parent.Parent.Rel = "gp/pom.xml"
			}
			chain = append(chain, pomFile{Path: gpPath, Pom: gp})
		}
	}
	chain[0].Path = main
	return chain
}

// ---------------------------------------------------------------- case

type mUpdate struct {
	Name       string `json:"name"`
	From       string `json:"from"`
	To         string `json:"to"`
	Origin     string `json:"origin,omitempty"`
	Type       string `json:"type,omitempty"`
	Classifier string `json:"classifier,omitempty"`
	Scope      string `json:"scope,omitempty"`
	Test       bool   `json:"test,omitempty"`
	Opt        bool   `json:"opt,omitempty"`
	Excl       string `json:"excl,omitempty"`
	New        bool   `json:"new,omitempty"` // not addressed to a present requirement (to be added to dependencyManagement)
}

func (u mUpdate) depType() dep.Type {
	var t dep.Type
	if u.Opt {
		t.AddAttr(dep.Opt, "")
	}
	if u.Test {
		t.AddAttr(dep.Test, "")
	}
	if u.Scope != "" {
		t.AddAttr(dep.Scope, u.Scope)
	}
	if u.Type != "" {
		t.AddAttr(dep.MavenArtifactType, u.Type)
	}
	if u.Classifier != "" {
		t.AddAttr(dep.MavenClassifier, u.Classifier)
	}
	if u.Excl != "" {
		t.AddAttr(dep.MavenExclusions, u.Excl)
	}
	if u.Origin != "" {
		t.AddAttr(dep.MavenDependencyOrigin, u.Origin)
	}
	return t
}

func updateOfReq(r resolve.RequirementVersion, to string) mUpdate {
	u := mUpdate{Name: r.Name, From: r.Version, To: to}
	u.Origin, _ = r.Type.GetAttr(dep.MavenDependencyOrigin)
	u.Type, _ = r.Type.GetAttr(dep.MavenArtifactType)
	u.Classifier, _ = r.Type.GetAttr(dep.MavenClassifier)
	u.Scope, _ = r.Type.GetAttr(dep.Scope)
	u.Excl, _ = r.Type.GetAttr(dep.MavenExclusions)
	u.Test = r.Type.HasAttr(dep.Test)
	u.Opt = r.Type.HasAttr(dep.Opt)
	return u
}

func mReqKey(name, typ, classifier string) string {
	if typ == "" {
		typ = "jar"
	}
	return name + "|" + typ + "|" + classifier
}

func mReqString(r resolve.RequirementVersion) string {
	u := updateOfReq(r, "")
	return fmt.Sprintf("%s|%s|%s|%s|%s", mReqKey(u.Name, u.Type, u.Classifier), u.Origin, u.Scope, u.Excl, r.Version)
}

type propPair struct {
	S1 string `json:"s1"`
	S2 string `json:"s2"`
}

type pomCase struct {
	Stream  string            `json:"stream"`
	Chain   []pomFile         `json:"chain"` // main pom first, then the local parent chain
	Files   map[string]string `json:"files"` // rendered from Chain
	Main    string            `json:"main"`
	Updates []mUpdate         `json:"updates"`

	Outcome    string            `json:"outcome"` // ok | err | panic | read-error
	Err        string            `json:"err,omitempty"`
	Out        map[string]string `json:"out,omitempty"`
	Reqs       []string          `json:"reqs,omitempty"`
	Reread     []string          `json:"reread,omitempty"`
	Want       []string          `json:"want,omitempty"`
	TokensOK   bool              `json:"tokens_ok"`
	TokensNote string            `json:"tokens_note,omitempty"`
	RereadOK   bool              `json:"reread_ok"`
	EffOK      bool              `json:"eff_ok"` // effective versions of all declarations: only the addressed ones changed, to VersionTo
	EffNote    string            `json:"eff_note,omitempty"`
	effBefore  []effDecl
	DChain     []dPom      `json:"dchain,omitempty"`  // declaration-level reading of the input chain
	DAfter     []dPom      `json:"dafter,omitempty"`  // ... of the written chain (only declarations present before)
	Targets    [][2]string `json:"targets,omitempty"` // per update: pom number, origin of the addressed declaration
	ChainOK    bool        `json:"chain_ok"`          // every pom of the chain was written by Write
	TokClaimed bool        `json:"tok_claimed"`       // token-level part of the domain (see domain)
	tokFiles   []tokDump
	tokTable   string
	TokDumpOK  bool       `json:"tok_dump_ok"` // token streams of all chain files dumped (no added entries)
	Claimed    bool       `json:"claimed"`     // structural part of the oracle's domain (see claimedDomain)
	ClaimNote  string     `json:"claim_note,omitempty"`
	PropPairs  []propPair `json:"prop_pairs,omitempty"` // generatePropertyPatches calls Write must make, in order
}

func (c *pomCase) coq() string {
	pairs := make([]string, len(c.PropPairs))
	for i, p := range c.PropPairs {
		pairs[i] = fmt.Sprintf("(%s, %s)", cf.Str(p.S1), cf.Str(p.S2))
	}
	l := "(@nil (bytes * bytes))"
	if len(pairs) > 0 {
		l = cf.List(pairs)
	}
	good := c.Outcome == "ok" && c.TokensOK && c.RereadOK && c.EffOK
	ups := make([]string, len(c.Updates))
	for i, u := range c.Updates {
		pomN, origin := "999", ""
		if i < len(c.Targets) && c.Targets[i][0] != "" {
			pomN, origin = c.Targets[i][0], c.Targets[i][1]
		}
		ups[i] = fmt.Sprintf("{| pu_key := %s; pu_to := %s; pu_pom := %s%%nat; pu_origin := %s |}",
			cf.Str(mReqKey(u.Name, u.Type, u.Classifier)), cf.Str(u.To), pomN, cf.Str(origin))
	}
	ul := "(@nil pupd)"
	if len(ups) > 0 {
		ul = cf.List(ups)
	}
	obs := "DObsErr"
	switch {
	case c.Outcome == "panic":
		obs = "DObsPanic"
	case c.Outcome == "ok":
		obs = "(DObsOk " + coqChain(c.DAfter) + ")"
	}
	tfs := make([]string, len(c.tokFiles))
	for i, tf := range c.tokFiles {
		tfs[i] = tf.coq()
	}
	tfl, tbl := "(@nil tokfile)", "(@nil (N * bytes))"
	if len(tfs) > 0 {
		tfl = cf.List(tfs)
	}
	if c.tokTable != "" {
		tbl = c.tokTable
	}
	return fmt.Sprintf("{| mc_prop_pairs := %s; mc_chain := %s; mc_updates := %s; mc_dobs := %s; mc_chain_ok := %s; mc_tok_claimed := %s; mc_zero_updates := %s; mc_claimed := %s; mc_panic := %s; mc_error := %s; mc_good := %s; mc_tokfiles := %s; mc_texts := %s; mc_tok_dump_ok := %s |}",
		l, coqChain(c.DChain), ul, obs, cf.Bool(c.ChainOK), cf.Bool(c.TokClaimed), cf.Bool(len(c.Updates) == 0), cf.Bool(c.Claimed), cf.Bool(c.Outcome == "panic"), cf.Bool(c.Outcome == "err"), cf.Bool(good),
		tfl, tbl, cf.Bool(c.TokDumpOK))
}

// ---------------------------------------------------------------- XML tokens (oracle side: encoding/xml)

type tok struct {
	Kind  string // S E T C P D
	Text  string
	Path  string // element path at this token (for T: the enclosing elements)
	Local string // S, E: local name
}

func tokenize(src string) ([]tok, error) {
	dec := xml.NewDecoder(strings.NewReader(src))
	var out []tok
	var stack []string
	for {
		t, err := dec.Token()
		if err == io.EOF {
			break
		}
		if err != nil {
			return out, err
		}
		path := strings.Join(stack, ">")
		switch tt := t.(type) {
		case xml.StartElement:
			attrs := make([]string, 0, len(tt.Attr))
			for _, a := range tt.Attr {
				attrs = append(attrs, a.Name.Space+" "+a.Name.Local+"="+a.Value)
			}
			sort.Strings(attrs)
			out = append(out, tok{"S", tt.Name.Space + " " + tt.Name.Local + " [" + strings.Join(attrs, ",") + "]", path, tt.Name.Local})
			stack = append(stack, tt.Name.Local)
		case xml.EndElement:
			stack = stack[:len(stack)-1]
			out = append(out, tok{"E", tt.Name.Space + " " + tt.Name.Local, strings.Join(stack, ">"), tt.Name.Local})
		case xml.CharData:
			if n := len(out); n > 0 && out[n-1].Kind == "T" {
				out[n-1].Text += string(tt) // adjacent text and CDATA are one text
			} else {
				out = append(out, tok{"T", string(tt), path, ""})
			}
		case xml.Comment:
			out = append(out, tok{"C", string(tt), path, ""})
		case xml.ProcInst:
			out = append(out, tok{"P", tt.Target + " " + string(tt.Inst), path, ""})
		case xml.Directive:
			out = append(out, tok{"D", string(tt), path, ""})
		}
	}
	return out, nil
}

func isBlank(s string) bool { return strings.TrimSpace(s) == "" }

func dropBlank(ts []tok) []tok {
	var out []tok
	for _, t := range ts {
		if t.Kind == "T" && isBlank(t.Text) {
			continue
		}
		out = append(out, t)
	}
	return out
}

// dropAdded removes the <dependency> subtrees whose groupId:artifactId is one of the added requirements.
func dropAdded(ts []tok, added map[string]bool) []tok {
	var out []tok
	for i := 0; i < len(ts); i++ {
		if ts[i].Kind == "S" && strings.Contains(ts[i].Text, " dependency [") {
			depth, j := 0, i
			g, a := "", ""
			for ; j < len(ts); j++ {
				if ts[j].Kind == "S" {
					depth++
				} else if ts[j].Kind == "E" {
					depth--
					if depth == 0 {
						break
					}
				} else if ts[j].Kind == "T" && depth == 2 {
					if strings.HasSuffix(ts[j].Path, ">groupId") {
						g = strings.TrimSpace(ts[j].Text)
					}
					if strings.HasSuffix(ts[j].Path, ">artifactId") {
						a = strings.TrimSpace(ts[j].Text)
					}
				}
			}
			if added[g+":"+a] {
				i = j
				continue
			}
		}
		out = append(out, ts[i])
	}
	return out
}

var versionPathRe = regexp.MustCompile(`(^|>)(dependency|parent)>version$`)
var propPathRe = regexp.MustCompile(`(^|>)properties>[^>]+$`)

// compareTokens: "everything else preserved". strict: no difference at all. Otherwise the only
// differences allowed are texts directly inside dependency>version, parent>version and properties>X;
// when insertion is true, added <dependency> subtrees / an added <dependencyManagement> block are
// allowed and blank text is ignored.
func compareTokens(in, out string, strict, insertion bool, addedNames map[string]bool) (bool, string) {
	ti, err := tokenize(in)
	if err != nil {
		return false, "input does not tokenize: " + err.Error()
	}
	to, err := tokenize(out)
	if err != nil {
		return false, "output does not tokenize: " + err.Error()
	}
	if insertion {
		ti, to = dropBlank(ti), dropAdded(dropBlank(to), addedNames)
	}
	i, j := 0, 0
	for i < len(ti) && j < len(to) {
		a, b := ti[i], to[j]
		if a.Kind == b.Kind && a.Text == b.Text {
			i++
			j++
			continue
		}
		if !strict && a.Kind == "T" && b.Kind == "T" && (versionPathRe.MatchString(a.Path) || propPathRe.MatchString(a.Path)) {
			i++
			j++
			continue
		}
		if !strict && a.Kind == "E" && b.Kind == "T" && (versionPathRe.MatchString(b.Path) || propPathRe.MatchString(b.Path)) {
			j++ // empty element got a text
			continue
		}
		if !strict && a.Kind == "T" && b.Kind == "E" && (versionPathRe.MatchString(a.Path) || propPathRe.MatchString(a.Path)) {
			i++ // the new text is empty
			continue
		}
		if insertion && b.Kind == "S" && (strings.Contains(b.Text, " dependency [") || strings.Contains(b.Text, " dependencyManagement [")) {
			// skip the inserted subtree
			depth := 0
			for j < len(to) {
				if to[j].Kind == "S" {
					depth++
				} else if to[j].Kind == "E" {
					depth--
				}
				j++
				if depth == 0 {
					break
				}
			}
			continue
		}
		return false, fmt.Sprintf("token %d/%d differs: in %s %q (at %s) out %s %q", i, j, a.Kind, a.Text, a.Path, b.Kind, b.Text)
	}
	if i != len(ti) || j != len(to) {
		return false, fmt.Sprintf("token count differs: %d consumed of %d in, %d of %d out", i, len(ti), j, len(to))
	}
	return true, ""
}

// ---------------------------------------------------------------- run

var placeholderRe = regexp.MustCompile(`\$\{[^}]*\}`)

func readMaven(dir, main string) (guidedremediation.VerifManifest, error) {
	return guidedremediation.VerifManifestRead(resolve.Maven, "", main, scalibrfs.DirFS(dir))
}

func allReqs(m guidedremediation.VerifManifest) []resolve.RequirementVersion {
	reqs := append([]resolve.RequirementVersion{}, m.Requirements()...)
	if sp, ok := m.EcosystemSpecific().(guidedremediation.VerifMavenSpecific); ok {
		reqs = append(reqs, sp.RequirementsForUpdates...)
	}
	return reqs
}

func (c *pomCase) run(pickUpdates func(m guidedremediation.VerifManifest, reqs []resolve.RequirementVersion) []mUpdate) {
	dir, err := os.MkdirTemp("", "c13mvn")
	if err != nil {
		panic(err)
	}
	defer os.RemoveAll(dir)
	c.Outcome, c.Err, c.Out, c.Reqs, c.Reread, c.Want = "", "", nil, nil, nil, nil
	c.TokensOK, c.TokensNote, c.RereadOK, c.Claimed, c.ClaimNote, c.PropPairs = false, "", false, false, "", nil
	c.EffOK, c.EffNote, c.effBefore = false, "", nil
	c.DChain, c.DAfter, c.Targets, c.ChainOK, c.TokClaimed = nil, nil, nil, false, false
	c.tokFiles, c.tokTable, c.TokDumpOK = nil, "", false
	c.Files = map[string]string{}
	for _, pf := range c.Chain {
		c.Files[pf.Path] = pf.Pom.render()
	}
	c.Main = c.Chain[0].Path
	in := filepath.Join(dir, "in")
	for p, content := range c.Files {
		full := filepath.Join(in, p)
		os.MkdirAll(filepath.Dir(full), 0o755)
		if err := os.WriteFile(full, []byte(content), 0o644); err != nil {
			panic(err)
		}
	}
	var chainPaths []string
	for _, pf := range c.Chain {
		chainPaths = append(chainPaths, pf.Path)
	}
	if c.effBefore, err = effDecls(c.Files, chainPaths); err != nil {
		c.Outcome, c.Err = "read-error", "oracle cannot read the generated poms: "+err.Error()
		return
	}
	if c.DChain, err = readChain(c.Files, chainPaths); err != nil {
		c.Outcome, c.Err = "read-error", "oracle cannot read the generated poms: "+err.Error()
		return
	}
	m, err := readMaven(in, c.Main)
	if err != nil {
		c.Outcome, c.Err = "read-error", err.Error()
		return
	}
	reqs := allReqs(m)
	if pickUpdates != nil {
		c.Updates = pickUpdates(m, reqs)
	}
	for _, r := range reqs {
		c.Reqs = append(c.Reqs, mReqString(r))
	}
	c.Targets = nil
	for _, u := range c.Updates {
		t := [2]string{"", ""}
		if !u.New {
			t = c.target(u)
		}
		c.Targets = append(c.Targets, t)
	}
	c.domain()

	ups := make([]result.PackageUpdate, len(c.Updates))
	for i, u := range c.Updates {
		ups[i] = result.PackageUpdate{Name: u.Name, VersionFrom: u.From, VersionTo: u.To, Type: u.depType()}
	}
	outRoot := filepath.Join(dir, "out")
	func() {
		defer func() {
			if r := recover(); r != nil {
				c.Outcome, c.Err = "panic", fmt.Sprint(r)
			}
		}()
		if err := guidedremediation.VerifManifestWrite(resolve.Maven, "", m, scalibrfs.DirFS(in), ups, filepath.Join(outRoot, c.Main)); err != nil {
			c.Outcome, c.Err = "err", err.Error()
			return
		}
		c.Outcome = "ok"
	}()
	if c.Outcome != "ok" {
		return
	}
	// written files: the main pom and every local parent that was visited
	c.Out = map[string]string{}
	insertion := false
	for _, u := range c.Updates {
		insertion = insertion || u.New
	}
	c.TokensOK = true
	for p, content := range c.Files {
		b, err := os.ReadFile(filepath.Join(outRoot, p))
		if err != nil {
			// not every generated file is necessarily a parent in use: copy for the re-read
			full := filepath.Join(outRoot, p)
			os.MkdirAll(filepath.Dir(full), 0o755)
			os.WriteFile(full, []byte(content), 0o644)
			continue
		}
		c.Out[p] = string(b)
		addedNames := map[string]bool{}
		for _, u := range c.Updates {
			if u.New {
				addedNames[u.Name] = true
			}
		}
		ok, note := compareTokens(content, string(b), len(c.Updates) == 0, insertion, addedNames)
		if !ok {
			c.TokensOK = false
			c.TokensNote = p + ": " + note
		}
	}
	if _, ok := c.Out[c.Main]; !ok {
		c.TokensOK, c.TokensNote = false, "main pom not written"
	}
	c.effOracle(chainPaths)
	c.ChainOK = true
	after := map[string]string{}
	for _, p := range chainPaths {
		o, ok := c.Out[p]
		if !ok {
			c.ChainOK = false
			o = c.Files[p]
		}
		after[p] = o
	}
	if da, err := readChain(after, chainPaths); err == nil {
		var addedKeys []string
		for _, u := range c.Updates {
			if u.New {
				addedKeys = append(addedKeys, mReqKey(u.Name, u.Type, u.Classifier))
			}
		}
		c.DAfter = keepShape(c.DChain, da, addedKeys)
	} else {
		c.ChainOK = false
	}
	c.dumpTokens(chainPaths, after)
	m2, err := readMaven(outRoot, c.Main)
	if err != nil {
		c.Err = "reread: " + err.Error()
		return
	}
	for _, r := range allReqs(m2) {
		c.Reread = append(c.Reread, mReqString(r))
	}
	for _, r := range reqs {
		u0 := updateOfReq(r, "")
		for _, u := range c.Updates {
			if !u.New && u.Name == r.Name && mReqKey(u.Name, u.Type, u.Classifier) == mReqKey(u0.Name, u0.Type, u0.Classifier) && u.From == r.Version {
				r.Version = u.To
				break
			}
		}
		c.Want = append(c.Want, mReqString(r))
	}
	a, b := append([]string{}, c.Want...), append([]string{}, c.Reread...)
	sort.Strings(a)
	sort.Strings(b)
	c.RereadOK = strings.Join(a, "\n") == strings.Join(b, "\n")
	if insertion {
		// added management entries show up as extra requirements: only require the originals to be intact
		have := map[string]int{}
		for _, s := range b {
			have[s]++
		}
		c.RereadOK = true
		for _, s := range a {
			if have[s] == 0 {
				c.RereadOK = false
			}
			have[s]--
		}
		// ... and every added requirement is listed by Read, in dependencyManagement, with VersionTo
		for _, u := range c.Updates {
			if !u.New {
				continue
			}
			found := false
			pre := mReqKey(u.Name, u.Type, u.Classifier) + "|management|"
			for _, s := range b {
				found = found || (strings.HasPrefix(s, pre) && strings.HasSuffix(s, "|"+u.To))
			}
			if !found {
				c.RereadOK = false
			}
		}
	}
}

// domain computes the structural part of the oracle's domain and the generatePropertyPatches calls
// that buildPatches has to make for these updates (from the original, un-interpolated requirements).
//
// claimed: every update is addressed to a requirement present in a local pom; no two updates share a
// requirement key; the version text of an addressed dependency is spelled without surrounding blanks or
// comments; a property that has to change is referenced exactly once in all the files (otherwise other
// requirements change with it) and defined exactly once.
func (c *pomCase) domain() {
	c.Claimed, c.TokClaimed = true, true
	note := func(s string) {
		c.Claimed = false
		if c.ClaimNote == "" {
			c.ClaimNote = s
		}
	}
	all := ""
	for _, f := range c.Files {
		all += f + "\n"
	}
	if strings.Contains(all, "<!-- pinned -->") {
		// comment inside a <version> element: dropped by the re-encoding even without updates (known finding)
		note("comment inside a version element")
		c.TokClaimed = false
	}
	seen := map[string]bool{}
	for _, u := range c.Updates {
		if u.New {
			note("update not addressed to a present requirement")
			continue
		}
		k := mReqKey(u.Name, u.Type, u.Classifier)
		if seen[k] {
			note("two updates for one requirement key")
		}
		seen[k] = true
		orig, count, nested := c.originalVersion(u)
		if orig == nil {
			note("original dependency not found in the base project")
			continue
		}
		if count != 1 {
			note("requirement key declared in more than one place (the writer takes the first, whatever the origin)")
		}
		_ = nested // since the separator fix a declaration in a profile/plugin of a parent pom is patched like any other
		if !strings.Contains(*orig, "${") || !strings.Contains(*orig, "}") {
			continue
		}
		if i := strings.Index(*orig, "${"); !strings.Contains((*orig)[i+2:], "}") {
			continue
		}
		c.PropPairs = append(c.PropPairs, propPair{S1: *orig, S2: u.To})
		// the property definitions in effect for this declaration (independent resolver, eff.go)
		d := c.addressedDecl(u)
		if d == nil {
			note("oracle cannot locate the addressed declaration")
			continue
		}
		for j, ph := range placeholderRe.FindAllString(d.Raw, -1) {
			name := ph[2 : len(ph)-1]
			def := ""
			if j < len(d.Defs) {
				def = d.Defs[j]
			}
			if def == "" {
				note("property " + name + " undefined")
				continue
			}
			if !strings.HasPrefix(def, itoa(d.File)+"|") {
				note("property " + name + " in effect for the declaration is defined in another pom of the chain")
			}
			users, textual := 0, 0
			for _, o := range c.effBefore {
				for _, od := range o.Defs {
					if od == def {
						users++
						break
					}
				}
				textual += strings.Count(o.Raw, ph)
			}
			if users != 1 {
				note("property " + name + " referenced more than once")
			}
			if strings.Count(all, ph) != textual {
				note("property " + name + " used outside dependency versions")
				c.TokClaimed = false
			}
		}
	}
}

// target: pom number and origin of the declaration the update is addressed to: among the declarations
// with the update's key and a version, the one of the update's origin class (dependencyManagement or
// not) that stands for VersionFrom, else the first of that class, else the first.
func (c *pomCase) target(u mUpdate) [2]string {
	k := mReqKey(u.Name, u.Type, u.Classifier)
	mgmt := func(o string) bool { return o == "management" || strings.HasSuffix(o, "@management") }
	best, bestScore := -1, -1
	for i, d := range c.effBefore {
		if d.Key != k {
			continue
		}
		score := 0
		if mgmt(d.Origin) == (u.Origin == "management") {
			score += 2
		}
		if d.Eff == u.From {
			score++
		}
		if score > bestScore {
			best, bestScore = i, score
		}
	}
	if best < 0 {
		return [2]string{"", ""}
	}
	return [2]string{itoa(c.effBefore[best].File), c.effBefore[best].Origin}
}

// addressedDecl: the declaration the update is addressed to (first by key in chain order, as the
// domain requires the key to be declared once).
func (c *pomCase) addressedDecl(u mUpdate) *effDecl {
	k := mReqKey(u.Name, u.Type, u.Classifier)
	for i := range c.effBefore {
		if c.effBefore[i].Key == k {
			return &c.effBefore[i]
		}
	}
	return nil
}

// effOracle: effective versions after Write = effective versions before, with exactly the addressed
// declarations standing for VersionTo.
func (c *pomCase) effOracle(chainPaths []string) {
	files := map[string]string{}
	for p, content := range c.Files {
		files[p] = content
		if o, ok := c.Out[p]; ok {
			files[p] = o
		}
	}
	after, err := effDecls(files, chainPaths)
	if err != nil {
		c.EffNote = "written poms unreadable: " + err.Error()
		return
	}
	want := append([]effDecl{}, c.effBefore...)
	for _, u := range c.Updates {
		if u.New {
			continue
		}
		k := mReqKey(u.Name, u.Type, u.Classifier)
		for i := range want {
			if want[i].Key == k {
				want[i].Eff = u.To
				break
			}
		}
	}
	insertion := false
	for _, u := range c.Updates {
		insertion = insertion || u.New
	}
	if insertion { // added management entries are extra declarations: compare the originals only
		var kept []effDecl
		wi := 0
		for _, a := range after {
			if wi < len(want) && a.File == want[wi].File && a.Origin == want[wi].Origin && a.Key == want[wi].Key {
				kept = append(kept, a)
				wi++
			}
		}
		after = kept
	}
	if len(after) != len(want) {
		c.EffNote = fmt.Sprintf("%d declarations before, %d after", len(want), len(after))
		return
	}
	for i := range want {
		if after[i].File != want[i].File || after[i].Origin != want[i].Origin || after[i].Key != want[i].Key || after[i].Eff != want[i].Eff {
			c.EffNote = fmt.Sprintf("declaration %s (pom %d, origin %q): effective version %q, want %q", want[i].Key, want[i].File, want[i].Origin, after[i].Eff, want[i].Eff)
			return
		}
	}
	c.EffOK = true
}

// originalVersion mirrors the search order of OriginalDependency over the base project and then each
// local parent (buildOriginalRequirements): parent reference, dependencies, dependencyManagement,
// profiles (dependencies, dependencyManagement), pluginManagement plugins; the first entry with the
// update's groupId:artifactId:type:classifier and a non-empty version.
func (c *pomCase) originalVersion(u mUpdate) (first *string, count int, nested bool) {
	typ := u.Type
	if typ == "" {
		typ = "jar"
	}
	match := func(g, a, t, cl, v string) bool {
		if t == "" {
			t = "jar"
		}
		return g+":"+a == u.Name && t == typ && cl == u.Classifier && v != ""
	}
	for fi, pf := range c.Chain {
		p := pf.Pom
		if p.Parent != nil && match(p.Parent.G, p.Parent.A, "pom", "", p.Parent.V) {
			count++
			if first == nil {
				first = &p.Parent.V
			}
		}
		lists := [][]pDep{p.Deps, p.Mgmt}
		if !p.HasDeps {
			lists[0] = nil
		}
		if !p.HasMgmt {
			lists[1] = nil
		}
		for _, pr := range p.Profiles {
			lists = append(lists, pr.Deps, pr.Mgmt)
		}
		for _, pl := range p.Plugins {
			if pl.Managed {
				lists = append(lists, pl.Deps)
			}
		}
		for li, l := range lists {
			for i := range l {
				if match(l[i].G, l[i].A, l[i].Type, l[i].Classifier, l[i].V) {
					count++
					if first == nil {
						first = &l[i].V
						nested = fi > 0 && li >= 2 // in a profile or plugin of a parent pom
					}
				}
			}
		}
	}
	return first, count, nested
}

type pomEmitter struct{}

func (pomEmitter) header() string {
	return "From Coq Require Import List ZArith NArith Bool.\n" +
		"From Scalibr Require Import Writers.GoBytes Writers.PomProps Writers.PomDecl Writers.PomTokens Writers.PomWriter.\nImport ListNotations.\n"
}
func (pomEmitter) caseType() string { return "mcase" }

func (pomEmitter) fromJSON(raw json.RawMessage) (anyCase, error) {
	var c pomCase
	if err := json.Unmarshal(raw, &c); err != nil {
		return nil, err
	}
	c.run(nil)
	return &c, nil
}

func simplePom(props [][2]string, v string, style int) *pPom {
	return &pPom{G: "g", A: "a", V: "1", Ind: "  ", NL: "\n", Props: props, HasDeps: true,
		Deps:  []pDep{{G: "org.example", A: "alpha", V: v, VStyle: style}},
		Order: []string{"coords", "parent", "props", "deps", "mgmt", "profiles", "build"}}
}

func (pomEmitter) generate(rng *rand.Rand, n int) []anyCase {
	var out []anyCase
	fixed := func(stream string, pom *pPom, ups []mUpdate) {
		c := &pomCase{Stream: stream, Chain: []pomFile{{Path: "pom.xml", Pom: pom}}, Updates: ups}
		c.run(nil)
		out = append(out, c)
	}
	// boundary cases, always present
	fixed("boundary", simplePom([][2]string{{"minor", "5"}}, "1.${minor}", 0), []mUpdate{{Name: "org.example:alpha", From: "1.5", To: "1"}})
	fixed("boundary", simplePom([][2]string{{"minor", "5"}}, "1.${minor}", 0), []mUpdate{{Name: "org.example:alpha", From: "1.5", To: "1.7"}})
	fixed("boundary", simplePom([][2]string{{"v", "32.0"}}, "${v}-jre", 0), []mUpdate{{Name: "org.example:alpha", From: "32.0-jre", To: "33"}})
	fixed("boundary", simplePom(nil, "1.0", 0), []mUpdate{{Name: "org.example:alpha", From: "1.0", To: "1.1"}})
	fixed("boundary", simplePom(nil, "1.0", 2), nil)
	fixed("boundary", simplePom(nil, "1.0", 3), nil)
	fixed("boundary", simplePom(nil, "1.0", 1), []mUpdate{{Name: "org.example:alpha", From: "1.0", To: "1.1"}})
	fixed("zero-updates", simplePom(nil, "1.0", 0), nil)
	{ // the same key in dependencies and dependencyManagement, update addressed to the managed requirement
		p := simplePom(nil, "1.0", 0)
		p.HasMgmt, p.Mgmt = true, []pDep{{G: "org.example", A: "alpha", V: "2.0"}}
		fixed("boundary", p, []mUpdate{{Name: "org.example:alpha", From: "2.0", To: "2.5", Origin: "management"}})
	}
	{ // requirement declared in a profile of the local parent
		child := simplePom(nil, "1.0", 0)
		child.Parent = &pParentRef{G: "g", A: "par", V: "7", Rel: "../pom.xml"}
		par := simplePom(nil, "3.0", 0)
		par.A, par.V, par.Packaging = "par", "7", "pom"
		par.Deps[0].A = "in-parent"
		par.Profiles = []pProfile{{ID: "p1", Deps: []pDep{{G: "org.example", A: "in-profile", V: "1.0"}}}}
		for _, u := range []mUpdate{{Name: "org.example:in-profile", From: "1.0", To: "1.1"}, {Name: "org.example:in-parent", From: "3.0", To: "3.1"}} {
			c := &pomCase{Stream: "boundary", Chain: []pomFile{{Path: "child/pom.xml", Pom: child}, {Path: "pom.xml", Pom: par}}, Updates: []mUpdate{u}}
			c.run(nil)
			out = append(out, c)
		}
	}
	{ // requirement of the grandparent whose key is also declared in a profile of the parent
		child := simplePom(nil, "1.0", 0)
		child.Parent = &pParentRef{G: "g", A: "par", V: "7", Rel: "../parent/pom.xml"}
		par := simplePom(nil, "3.0", 0)
		par.A, par.V, par.Packaging, par.HasDeps, par.Deps = "par", "7", "pom", false, nil
		par.Parent = &pParentRef{G: "g", A: "gp", V: "8", Rel: "../gp/pom.xml"}
		par.Profiles = []pProfile{{ID: "p1", Deps: []pDep{{G: "org.example", A: "beta", V: "4.12"}}}}
		gp := simplePom(nil, "2.0", 0)
		gp.A, gp.V, gp.Packaging = "gp", "8", "pom"
		gp.Deps[0].A = "beta"
		c := &pomCase{Stream: "boundary", Chain: []pomFile{{Path: "child/pom.xml", Pom: child}, {Path: "parent/pom.xml", Pom: par}, {Path: "gp/pom.xml", Pom: gp}},
			Updates: []mUpdate{{Name: "org.example:beta", From: "2.0", To: "2.1"}}}
		c.run(nil)
		out = append(out, c)
	}
	{ // the child's version uses a property that only the local parent defines
		child := simplePom(nil, "${pv}", 0)
		child.Parent = &pParentRef{G: "g", A: "par", V: "7", Rel: "../pom.xml"}
		par := simplePom([][2]string{{"pv", "1.0"}}, "3.0", 0)
		par.A, par.V, par.Packaging = "par", "7", "pom"
		par.Deps[0].A = "in-parent"
		c := &pomCase{Stream: "boundary", Chain: []pomFile{{Path: "child/pom.xml", Pom: child}, {Path: "pom.xml", Pom: par}},
			Updates: []mUpdate{{Name: "org.example:alpha", From: "1.0", To: "1.1"}}}
		c.run(nil)
		out = append(out, c)
	}
	{ // the same property name in two profiles, the dependency of the first profile is updated
		p := simplePom([][2]string{{"lib.version", "0.5"}}, "${lib.version}", 0)
		p.Profiles = []pProfile{
			{ID: "jdk8", Props: [][2]string{{"lib.version", "1.0.0"}}, Deps: []pDep{{G: "org.example", A: "lib-a", V: "${lib.version}"}}},
			{ID: "jdk11", Props: [][2]string{{"lib.version", "2.0.0"}}, Deps: []pDep{{G: "org.example", A: "lib-b", V: "${lib.version}"}}}}
		for _, u := range []mUpdate{{Name: "org.example:lib-a", From: "1.0.0", To: "1.0.1"}, {Name: "org.example:lib-b", From: "2.0.0", To: "2.0.1"}} {
			q := *p
			c := &pomCase{Stream: "boundary", Chain: []pomFile{{Path: "pom.xml", Pom: &q}}, Updates: []mUpdate{u}}
			c.run(nil)
			out = append(out, c)
		}
	}
	{ // an added managed dependency over an empty <dependencyManagement><dependencies/>
		p := simplePom(nil, "1.0", 0)
		p.HasMgmt = true
		fixed("boundary", p, []mUpdate{{Name: "org.new:added", From: "", To: "2.0", Origin: "management", New: true}})
		q := simplePom(nil, "1.0", 0) // ... and with no dependencyManagement at all / only inside a profile
		fixed("boundary", q, []mUpdate{{Name: "org.new:added", From: "", To: "2.0", Origin: "management", New: true}})
		r := simplePom(nil, "1.0", 0)
		r.Profiles = []pProfile{{ID: "legacy", Mgmt: []pDep{{G: "org.prof", A: "managed", V: "1.4"}}}}
		fixed("boundary", r, []mUpdate{{Name: "org.new:added", From: "", To: "2.0", Origin: "management", New: true}})
	}
	{ // child -> parent -> grandparent, the parent inherits groupId and version; a requirement declared in the parent
		child := simplePom(nil, "1.0", 0)
		child.Parent = &pParentRef{G: "g", A: "par", V: "8", Rel: "../parent/pom.xml"}
		par := simplePom(nil, "3.0", 0)
		par.G, par.A, par.V, par.Packaging = "", "par", "", "pom"
		par.Deps[0].A = "in-parent"
		par.Parent = &pParentRef{G: "g", A: "gp", V: "8", Rel: "../gp/pom.xml"}
		gp := simplePom(nil, "2.0", 0)
		gp.A, gp.V, gp.Packaging = "gp", "8", "pom"
		gp.Deps[0].A = "in-gp"
		for _, u := range []mUpdate{{Name: "org.example:in-parent", From: "3.0", To: "3.1"}, {Name: "org.example:in-gp", From: "2.0", To: "2.1"}} {
			c := &pomCase{Stream: "boundary", Chain: []pomFile{{Path: "child/pom.xml", Pom: child}, {Path: "parent/pom.xml", Pom: par}, {Path: "gp/pom.xml", Pom: gp}},
				Updates: []mUpdate{u}}
			c.run(nil)
			out = append(out, c)
		}
	}
	{ // two requirements share one property, one of them is updated
		p := simplePom([][2]string{{"v", "1.0"}}, "${v}", 0)
		p.Deps = append(p.Deps, pDep{G: "org.example", A: "beta", V: "${v}"})
		fixed("boundary", p, []mUpdate{{Name: "org.example:alpha", From: "1.0", To: "2.0"}})
	}

	for k := 0; k < n; k++ {
		c := &pomCase{Chain: genProject(rng)}
		r := rng.Intn(100)
		switch {
		case r < 12:
			c.Stream = "zero-updates"
			c.run(func(guidedremediation.VerifManifest, []resolve.RequirementVersion) []mUpdate { return nil })
		case r >= 64 && r < 74:
			c.Stream = "added-management"
			shape := k % 4
			c.Chain = genAddedShape(rng, shape)
			c.run(func(m guidedremediation.VerifManifest, reqs []resolve.RequirementVersion) []mUpdate {
				ups := []mUpdate{{Name: "org.new:" + pick(rng, mArtifacts), From: "", To: pick(rng, mNewVers), Origin: "management", New: true}}
				if rng.Intn(3) == 0 {
					ups = append(ups, mUpdate{Name: "org.new:second", From: "", To: "2.2", Origin: "management", New: true, Classifier: "tests"})
				}
				if rng.Intn(3) == 0 { // together with an ordinary update of a literal version
					for _, j := range rng.Perm(len(reqs)) {
						rq := reqs[j]
						if o, _ := rq.Type.GetAttr(dep.MavenDependencyOrigin); o == "parent" || rq.Version == "" || strings.Contains(rq.Version, "${") {
							continue
						}
						ups = append(ups, updateOfReq(rq, pick(rng, mNewVers)))
						break
					}
				}
				return ups
			})
		case r >= 74 && r < 90:
			c.Stream = "same-property-multi-origin"
			c.Chain = genMultiOrigin(rng)
			turn := k
			c.run(func(m guidedremediation.VerifManifest, reqs []resolve.RequirementVersion) []mUpdate {
				// the declarations that use the shared name, each addressed in turn
				var targets []effDecl
				for _, d := range c.effBefore {
					if strings.Contains(d.Key, ":mo-") {
						targets = append(targets, d)
					}
				}
				for n := 0; n < len(targets); n++ {
					d := targets[(turn+n)%len(targets)]
					for _, rq := range reqs {
						u0 := updateOfReq(rq, "")
						if mReqKey(u0.Name, u0.Type, u0.Classifier) != d.Key {
							continue
						}
						to := pick(rng, []string{"9.9.1", "7.0", "1.0.1", "3", "12.4.0"})
						if to == d.Eff || strings.Contains(d.Eff, "${") {
							continue
						}
						u := updateOfReq(rq, to)
						u.From = d.Eff
						return []mUpdate{u}
					}
				}
				return nil
			})
		case r < 64:
			c.Stream = "addressed"
			c.run(func(m guidedremediation.VerifManifest, reqs []resolve.RequirementVersion) []mUpdate {
				var ups []mUpdate
				want := 1 + rng.Intn(3)
				for _, j := range rng.Perm(len(reqs)) {
					if len(ups) >= want {
						break
					}
					rq := reqs[j]
					if strings.Contains(rq.Name, "${") || strings.Contains(rq.Version, "${") {
						continue // unresolved properties are skipped by the suggester as well
					}
					if o, _ := rq.Type.GetAttr(dep.MavenDependencyOrigin); o == "parent" || rq.Version == "" {
						continue // a local parent cannot be re-versioned from the child; no version: nothing to update
					}
					to := pick(rng, mNewVers)
					if to == rq.Version {
						continue
					}
					ups = append(ups, updateOfReq(rq, to))
				}
				return ups
			})
		default:
			c.Stream = "new-management"
			c.run(func(m guidedremediation.VerifManifest, reqs []resolve.RequirementVersion) []mUpdate {
				ups := []mUpdate{{Name: "org.new:" + pick(rng, mArtifacts), From: "", To: pick(rng, mNewVers), Origin: "management", New: true}}
				if rng.Intn(2) == 0 {
					ups = append(ups, mUpdate{Name: "org.new:second", From: "", To: "2.2", Origin: "management", New: true, Classifier: "tests"})
				}
				for _, j := range rng.Perm(len(reqs)) {
					rq := reqs[j]
					if o, _ := rq.Type.GetAttr(dep.MavenDependencyOrigin); o == "parent" || rq.Version == "" {
						continue
					}
					if !strings.Contains(rq.Version, "${") && rng.Intn(2) == 0 {
						ups = append(ups, updateOfReq(rq, pick(rng, mNewVers)))
						break
					}
				}
				return ups
			})
		}
		if c.Outcome == "read-error" {
			c.Stream += "/read-error"
			continue
		}
		out = append(out, c)
	}
	return out
}

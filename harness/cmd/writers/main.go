// Command writers drives the npm/Maven manifest writers and generatePropertyPatches (through the
// verif hooks) on generated inputs and writes (a) a Coq cases file (inputs + observed outputs),
// (b) a JSONL side file describing each case in the same order.
//
//	writers -mode props|pkgjson|pom -out cases.v -jsonl cases.jsonl -seed N -n COUNT
//	writers -mode ... -replay case.json     (re-run one case, print observation and the Coq term)
package main

import (
	"bufio"
	"encoding/json"
	"flag"
	"fmt"
	"math/rand"
	"os"

	cf "verifharness/internal/coqfmt"
)

type emitter interface {
	// generate produces the cases of this mode (already run against the implementation).
	generate(rng *rand.Rand, n int) []anyCase
	// fromJSON decodes one case (input part), re-runs it and returns it.
	fromJSON(raw json.RawMessage) (anyCase, error)
	header() string
	caseType() string
}

type anyCase interface {
	coq() string
}

func main() {
	mode := flag.String("mode", "props", "props | pkgjson | pom")
	out := flag.String("out", "", "output .v file")
	side := flag.String("jsonl", "", "output side file (one JSON case per line)")
	seed := flag.Int64("seed", 1, "PRNG seed")
	n := flag.Int("n", 500, "number of generated cases (boundary cases come on top)")
	per := flag.Int("per", 100, "cases per Coq chunk")
	replay := flag.String("replay", "", "replay one JSON case file and print the result")
	flag.Parse()

	var em emitter
	switch *mode {
	case "props":
		em = propsEmitter{}
	case "pkgjson":
		em = pkgjsonEmitter{}
	case "pom":
		em = pomEmitter{}
	default:
		fmt.Fprintln(os.Stderr, "unknown mode", *mode)
		os.Exit(2)
	}

	if *replay != "" {
		b, err := os.ReadFile(*replay)
		if err != nil {
			fmt.Fprintln(os.Stderr, err)
			os.Exit(2)
		}
		var wrapper struct {
			Case json.RawMessage `json:"case"`
		}
		raw := json.RawMessage(b)
		if json.Unmarshal(b, &wrapper) == nil && len(wrapper.Case) > 0 {
			raw = wrapper.Case
		}
		c, err := em.fromJSON(raw)
		if err != nil {
			fmt.Fprintln(os.Stderr, "replay:", err)
			os.Exit(2)
		}
		js, _ := json.Marshal(c)
		fmt.Printf("implementation: %s\n", js)
		fmt.Printf("coq-case: %s\n", c.coq())
		return
	}

	rng := rand.New(rand.NewSource(*seed))
	cases := em.generate(rng, *n)

	sf, err := os.Create(*side)
	if err != nil {
		fmt.Fprintln(os.Stderr, err)
		os.Exit(2)
	}
	sw := bufio.NewWriter(sf)
	items := make([]string, len(cases))
	for i, c := range cases {
		items[i] = c.coq()
		js, err := json.Marshal(c)
		if err != nil {
			fmt.Fprintln(os.Stderr, err)
			os.Exit(2)
		}
		sw.Write(js)
		sw.WriteByte('\n')
	}
	sw.Flush()
	sf.Close()

	vf, err := os.Create(*out)
	if err != nil {
		fmt.Fprintln(os.Stderr, err)
		os.Exit(2)
	}
	vw := bufio.NewWriter(vf)
	vw.WriteString(em.header())
	vw.WriteString(cf.Chunked("cases", em.caseType(), items, *per))
	vw.Flush()
	vf.Close()
	fmt.Printf("wrote %d cases\n", len(cases))
}

package main

import (
	"encoding/xml"
	"strings"

	cf "verifharness/internal/coqfmt"
)

// Independent reading of a chain of pom.xml files (main pom first, then its local parents) into
// "effective declarations": every version declaration with the origin it sits in and the version it
// stands for once its ${placeholders} are resolved the way Maven resolves them when that origin is in
// effect: a property of the same profile (same file) first, then the project-level properties of the
// chain, closest descendant first (a child overrides its parent). Used by the oracle only: "exactly
// the addressed requirement changes" is judged on these effective versions, before and after Write.

type xProp struct {
	XMLName xml.Name
	Value   string `xml:",chardata"`
}

type xProps struct {
	L []xProp `xml:",any"`
}

type xDep struct {
	G string `xml:"groupId"`
	A string `xml:"artifactId"`
	V string `xml:"version"`
	T string `xml:"type"`
	C string `xml:"classifier"`
}

type xDeps struct {
	Deps []xDep `xml:"dependency"`
}

type xMgmt struct {
	Deps xDeps `xml:"dependencies"`
}

type xProfile struct {
	ID    string `xml:"id"`
	Props xProps `xml:"properties"`
	Deps  xDeps  `xml:"dependencies"`
	Mgmt  xMgmt  `xml:"dependencyManagement"`
}

type xPlugin struct {
	G    string `xml:"groupId"`
	A    string `xml:"artifactId"`
	Deps xDeps  `xml:"dependencies"`
}

type xProject struct {
	Parent           xDep       `xml:"parent"`
	Props            xProps     `xml:"properties"`
	Deps             xDeps      `xml:"dependencies"`
	Mgmt             xMgmt      `xml:"dependencyManagement"`
	Profiles         []xProfile `xml:"profiles>profile"`
	Plugins          []xPlugin  `xml:"build>pluginManagement>plugins>plugin"`
	UnmanagedPlugins []xPlugin  `xml:"build>plugins>plugin"`
}

// declaration-level reading of a pom chain, for the Coq model Writers.PomDecl

type dDecl struct {
	Origin string `json:"origin"`
	Key    string `json:"key"`
	Ver    string `json:"ver"`
	Listed bool   `json:"listed"`
}

type dProp struct {
	Origin string `json:"origin"`
	Name   string `json:"name"`
	Val    string `json:"val"`
}

type dPom struct {
	Path      string  `json:"path"`
	Decls     []dDecl `json:"decls"`
	Props     []dProp `json:"props"`
	EmptyMgmt bool    `json:"empty_mgmt"` // the project has a <dependencyManagement> without any <dependency>
}

// readChain lists, pom by pom, every version declaration in the order of buildOriginalRequirements
// (parent reference, dependencies, dependencyManagement, profiles, pluginManagement plugins) followed by
// the plugins outside pluginManagement (walked by the writer, not listed by Read), and every property.
func readChain(files map[string]string, paths []string) ([]dPom, error) {
	var out []dPom
	for _, p := range paths {
		var pr xProject
		if err := xml.Unmarshal([]byte(files[p]), &pr); err != nil {
			return nil, err
		}
		dp := dPom{Path: p}
		add := func(origin string, ds []xDep, listed bool) {
			for _, d := range ds {
				dp.Decls = append(dp.Decls, dDecl{Origin: origin, Key: mReqKey(tr(d.G)+":"+tr(d.A), tr(d.T), tr(d.C)), Ver: tr(d.V), Listed: listed})
			}
		}
		if tr(pr.Parent.G) != "" && tr(pr.Parent.A) != "" {
			dp.Decls = append(dp.Decls, dDecl{Origin: "parent", Key: mReqKey(tr(pr.Parent.G)+":"+tr(pr.Parent.A), "pom", ""), Ver: tr(pr.Parent.V), Listed: true})
		}
		add("", pr.Deps.Deps, true)
		add("management", pr.Mgmt.Deps.Deps, true)
		dp.EmptyMgmt = strings.Contains(topLevelXML(files[p]), "<dependencyManagement") && len(pr.Mgmt.Deps.Deps) == 0
		for _, x := range pr.Props.L {
			dp.Props = append(dp.Props, dProp{"", x.XMLName.Local, tr(x.Value)})
		}
		for _, pf := range pr.Profiles {
			o := "profile@" + tr(pf.ID)
			add(o, pf.Deps.Deps, true)
			add(o+"@management", pf.Mgmt.Deps.Deps, true)
			for _, x := range pf.Props.L {
				dp.Props = append(dp.Props, dProp{o, x.XMLName.Local, tr(x.Value)})
			}
		}
		for _, pl := range pr.Plugins {
			add("plugin@"+tr(pl.G)+":"+tr(pl.A), pl.Deps.Deps, true)
		}
		for _, pl := range pr.UnmanagedPlugins {
			add("plugin@"+tr(pl.G)+":"+tr(pl.A), pl.Deps.Deps, false)
		}
		out = append(out, dp)
	}
	return out, nil
}

// topLevelXML: the text of a pom with its <profiles> and <build> blocks cut out (a dependencyManagement
// element found in it is the project's own)
func topLevelXML(src string) string {
	for _, tag := range []string{"profiles", "build"} {
		for {
			i := strings.Index(src, "<"+tag+">")
			j := strings.Index(src, "</"+tag+">")
			if i < 0 || j < i {
				break
			}
			src = src[:i] + src[j+len(tag)+3:]
		}
	}
	return src
}

func coqChain(c []dPom) string {
	poms := make([]string, len(c))
	for i, p := range c {
		ds := make([]string, len(p.Decls))
		for j, d := range p.Decls {
			ds[j] = "{| dl_origin := " + cf.Str(d.Origin) + "; dl_key := " + cf.Str(d.Key) + "; dl_ver := " + cf.Str(d.Ver) + "; dl_listed := " + cf.Bool(d.Listed) + " |}"
		}
		ps := make([]string, len(p.Props))
		for j, f := range p.Props {
			ps[j] = "{| pf_origin := " + cf.Str(f.Origin) + "; pf_name := " + cf.Str(f.Name) + "; pf_val := " + cf.Str(f.Val) + " |}"
		}
		dl, pl := "(@nil decl)", "(@nil pdef)"
		if len(ds) > 0 {
			dl = cf.List(ds)
		}
		if len(ps) > 0 {
			pl = cf.List(ps)
		}
		poms[i] = "{| pm_path := " + cf.Str(p.Path) + "; pm_decls := " + dl + "; pm_props := " + pl + "; pm_empty_mgmt := " + cf.Bool(p.EmptyMgmt) + " |}"
	}
	if len(poms) == 0 {
		return "(@nil pom)"
	}
	return cf.List(poms)
}

// keepShape: the declarations of b that sit where a's do, plus -- in the main pom -- the added
// project-level "management" declarations whose key is in addedKeys, listed in that order (the writer sorts
// them "for consistency in testing"; their mutual order is a token-level matter).
func keepShape(a, b []dPom, addedKeys []string) []dPom {
	out := make([]dPom, len(b))
	for i := range b {
		out[i] = dPom{Path: b[i].Path, Props: b[i].Props, EmptyMgmt: b[i].EmptyMgmt}
		if i >= len(a) {
			out[i].Decls = b[i].Decls
			continue
		}
		wi := 0
		var added []dDecl
		addedAt := -1
		for _, d := range b[i].Decls {
			if wi < len(a[i].Decls) && d.Origin == a[i].Decls[wi].Origin && d.Key == a[i].Decls[wi].Key {
				out[i].Decls = append(out[i].Decls, d)
				wi++
				continue
			}
			isAdded := false
			if i == 0 && d.Origin == "management" {
				for _, k := range addedKeys {
					isAdded = isAdded || k == d.Key
				}
			}
			if isAdded {
				if addedAt < 0 {
					addedAt = len(out[i].Decls)
				}
				added = append(added, d)
			}
		}
		if len(added) > 0 {
			var ordered []dDecl
			for _, k := range addedKeys {
				for _, d := range added {
					if d.Key == k {
						ordered = append(ordered, d)
					}
				}
			}
			rest := append([]dDecl{}, out[i].Decls[addedAt:]...)
			out[i].Decls = append(append(out[i].Decls[:addedAt], ordered...), rest...)
		}
	}
	return out
}

type effDecl struct {
	File   int      `json:"file"`
	Origin string   `json:"origin"`
	Key    string   `json:"key"`
	Raw    string   `json:"raw"`
	Eff    string   `json:"eff"`
	Defs   []string `json:"defs,omitempty"` // per placeholder of Raw: "file|origin|name" of the definition in effect, "" if none
}

type effProp struct {
	file         int
	origin, name string
	value        string
}

func tr(s string) string { return strings.TrimSpace(s) }

func effDecls(files map[string]string, paths []string) ([]effDecl, error) {
	var decls []effDecl
	var props []effProp
	for fi, p := range paths {
		var pr xProject
		if err := xml.Unmarshal([]byte(files[p]), &pr); err != nil {
			return nil, err
		}
		add := func(origin string, ds []xDep) {
			for _, d := range ds {
				if tr(d.V) == "" {
					continue
				}
				decls = append(decls, effDecl{File: fi, Origin: origin, Key: mReqKey(tr(d.G)+":"+tr(d.A), tr(d.T), tr(d.C)), Raw: tr(d.V)})
			}
		}
		if tr(pr.Parent.G) != "" && tr(pr.Parent.A) != "" && tr(pr.Parent.V) != "" {
			decls = append(decls, effDecl{File: fi, Origin: "parent", Key: mReqKey(tr(pr.Parent.G)+":"+tr(pr.Parent.A), "pom", ""), Raw: tr(pr.Parent.V)})
		}
		add("", pr.Deps.Deps)
		add("management", pr.Mgmt.Deps.Deps)
		for _, x := range pr.Props.L {
			props = append(props, effProp{fi, "", x.XMLName.Local, tr(x.Value)})
		}
		for _, pf := range pr.Profiles {
			o := "profile@" + tr(pf.ID)
			add(o, pf.Deps.Deps)
			add(o+"@management", pf.Mgmt.Deps.Deps)
			for _, x := range pf.Props.L {
				props = append(props, effProp{fi, o, x.XMLName.Local, tr(x.Value)})
			}
		}
		for _, pl := range pr.Plugins {
			add("plugin@"+tr(pl.G)+":"+tr(pl.A), pl.Deps.Deps)
		}
	}
	lookup := func(file int, origin, name string) (string, string, bool) {
		if strings.HasPrefix(origin, "profile@") {
			po := strings.TrimSuffix(origin, "@management")
			for _, p := range props {
				if p.file == file && p.origin == po && p.name == name {
					return p.value, itoa(p.file) + "|" + p.origin + "|" + p.name, true
				}
			}
		}
		for f := 0; f < len(paths); f++ { // closest descendant first
			var hit *effProp
			for i := range props {
				if props[i].file == f && props[i].origin == "" && props[i].name == name {
					hit = &props[i] // the last definition of a name in one block wins
				}
			}
			if hit != nil {
				return hit.value, itoa(hit.file) + "||" + hit.name, true
			}
		}
		return "", "", false
	}
	for i := range decls {
		d := &decls[i]
		d.Eff = placeholderRe.ReplaceAllStringFunc(d.Raw, func(ph string) string {
			v, def, ok := lookup(d.File, d.Origin, ph[2:len(ph)-1])
			d.Defs = append(d.Defs, def)
			if !ok {
				return ph
			}
			return v
		})
	}
	return decls, nil
}

func itoa(i int) string { return string(rune('0' + i)) }

package main

import (
	"encoding/json"
	"fmt"
	"math/rand"
	"sort"
	"strings"

	"github.com/google/osv-scalibr/guidedremediation"

	cf "verifharness/internal/coqfmt"
)

// ---------------------------------------------------------------- generatePropertyPatches

type propsCase struct {
	Stream string            `json:"stream"`
	S1     string            `json:"s1"`
	S2     string            `json:"s2"`
	Panic  bool              `json:"panic"`
	OK     bool              `json:"ok"`
	Map    map[string]string `json:"map,omitempty"`
}

func (c *propsCase) run() {
	c.Panic, c.OK, c.Map = false, false, nil
	defer func() {
		if r := recover(); r != nil {
			c.Panic = true
			c.OK = false
			c.Map = nil
		}
	}()
	m, ok := guidedremediation.VerifGeneratePropertyPatches(c.S1, c.S2)
	c.OK = ok
	c.Map = m
}

func coqMap(m map[string]string) string {
	keys := make([]string, 0, len(m))
	for k := range m {
		keys = append(keys, k)
	}
	sort.Strings(keys)
	items := make([]string, len(keys))
	for i, k := range keys {
		items[i] = fmt.Sprintf("(%s, %s)", cf.Str(k), cf.Str(m[k]))
	}
	if len(items) == 0 {
		return "(@nil (bytes * bytes))"
	}
	return cf.List(items)
}

func (c *propsCase) coq() string {
	obs := "PObsPanic"
	if !c.Panic {
		obs = fmt.Sprintf("(PObsRes %s %s)", cf.Bool(c.OK), coqMap(c.Map))
	}
	return fmt.Sprintf("{| pc_s1 := %s; pc_s2 := %s; pc_obs := %s |}", cf.Str(c.S1), cf.Str(c.S2), obs)
}

type propsEmitter struct{}

func (propsEmitter) header() string {
	return "From Coq Require Import List ZArith NArith Bool.\n" +
		"From Scalibr Require Import Writers.GoBytes Writers.PomProps.\nImport ListNotations.\n"
}
func (propsEmitter) caseType() string { return "pcase" }

func (propsEmitter) fromJSON(raw json.RawMessage) (anyCase, error) {
	var c propsCase
	if err := json.Unmarshal(raw, &c); err != nil {
		return nil, err
	}
	c.run()
	return &c, nil
}

var propNames = []string{"a", "b", "v", "x.y", "dep.version", "rev", "a"}
var litAlphabet = []string{"1", "2", "0", ".", "-", "a", "rc", "jre", "_", "10", "$", "{"}
var valAlphabet = []string{"1", "2", "3", "0", ".", "-", "b", "RELEASE", "9", "11"}

func pick(rng *rand.Rand, l []string) string { return l[rng.Intn(len(l))] }

func randWord(rng *rand.Rand, alpha []string, min, max int) string {
	n := min
	if max > min {
		n += rng.Intn(max - min + 1)
	}
	var sb strings.Builder
	for i := 0; i < n; i++ {
		sb.WriteString(pick(rng, alpha))
	}
	return sb.String()
}

type tpl struct {
	lits  []string // len k+1: lits[0] ${names[0]} lits[1] ... ${names[k-1]} lits[k]
	names []string
}

func (t tpl) text() string {
	var sb strings.Builder
	for i, n := range t.names {
		sb.WriteString(t.lits[i])
		sb.WriteString("${" + n + "}")
	}
	sb.WriteString(t.lits[len(t.names)])
	return sb.String()
}

func (t tpl) inst(vals []string) string {
	var sb strings.Builder
	for i := range t.names {
		sb.WriteString(t.lits[i])
		sb.WriteString(vals[i])
	}
	sb.WriteString(t.lits[len(t.names)])
	return sb.String()
}

func randTpl(rng *rand.Rand, distinct bool) tpl {
	k := 1
	switch r := rng.Intn(10); {
	case r >= 9:
		k = 3
	case r >= 6:
		k = 2
	}
	var t tpl
	used := map[string]bool{}
	for i := 0; i < k; i++ {
		nm := pick(rng, propNames)
		for distinct && used[nm] {
			nm = nm + "2"
		}
		used[nm] = true
		t.names = append(t.names, nm)
	}
	for i := 0; i <= k; i++ {
		lo := 0
		if i > 0 && i < k && rng.Intn(8) > 0 {
			lo = 1 // literal between two placeholders mostly non-empty
		}
		t.lits = append(t.lits, randWord(rng, litAlphabet[:10], lo, 3))
	}
	if rng.Intn(3) == 0 {
		t.lits[k] = "" // template ends with a placeholder
	}
	if rng.Intn(3) == 0 {
		t.lits[0] = ""
	}
	return t
}

func mutate(rng *rand.Rand, s string) string {
	if s == "" {
		return pick(rng, valAlphabet)
	}
	switch rng.Intn(5) {
	case 0: // truncate at the end
		return s[:rng.Intn(len(s))]
	case 1: // truncate at the front
		return s[rng.Intn(len(s)):]
	case 2: // drop one byte
		i := rng.Intn(len(s))
		return s[:i] + s[i+1:]
	case 3: // replace one byte
		i := rng.Intn(len(s))
		return s[:i] + pick(rng, valAlphabet) + s[i+1:]
	default:
		return s + pick(rng, valAlphabet)
	}
}

func (propsEmitter) generate(rng *rand.Rand, n int) []anyCase {
	var cases []*propsCase
	add := func(stream, s1, s2 string) { cases = append(cases, &propsCase{Stream: stream, S1: s1, S2: s2}) }
	// boundary cases, always present
	for _, p := range [][2]string{
		{"${v}", "1.2.3"}, {"${v}", ""}, {"1.${minor}", "1.5"}, {"1.${minor}", "1"}, {"1.${minor}", "2.5"},
		{"${v}-jre", "32.0-jre"}, {"${v}-jre", "32"}, {"${v}-jre", "-jre"}, {"ab${x}bc", "abc"}, {"ab${x}bc", "abbc"},
		{"${a}.${b}", "1.2"}, {"${a}.${b}", "1.2.3"}, {"${a}.${b}", ".2"}, {"${a}${b}", "12"}, {"${a}-${a}", "1-2"},
		{"${a}-${a}", "1-1"}, {"${a}-${b}-x", "1-x"}, {"${a}-${b}-x", "1-2-x"}, {"1.0", "1.1"}, {"", ""},
		{"${a", "1"}, {"}${a}", "}1"}, {"a}b${x}", "a}bbb"}, {"a}b${x}", "a}b1"}, {"${}", "7"}, {"${a${b}}", "3}"},
		{"${a}.${b}.${c}", "1.2.3"}, {"x${a}.${b}", "x1"}, {"${a}..${b}", "1..2"}, {"$${a}", "$5"},
	} {
		add("boundary", p[0], p[1])
	}
	for i := 0; i < n; i++ {
		r := rng.Intn(100)
		switch {
		case r < 45: // instance of a template with distinct names
			t := randTpl(rng, true)
			vals := make([]string, len(t.names))
			for j := range vals {
				vals[j] = randWord(rng, valAlphabet, 1, 3)
			}
			add("instance", t.text(), t.inst(vals))
		case r < 60: // repeated names allowed, values may be empty
			t := randTpl(rng, false)
			vals := make([]string, len(t.names))
			for j := range vals {
				vals[j] = randWord(rng, valAlphabet, 0, 2)
			}
			add("instance-dup", t.text(), t.inst(vals))
		case r < 85: // instance, then s2 damaged (short / shifted)
			t := randTpl(rng, rng.Intn(4) > 0)
			vals := make([]string, len(t.names))
			for j := range vals {
				vals[j] = randWord(rng, valAlphabet, 1, 2)
			}
			s2 := mutate(rng, t.inst(vals))
			if rng.Intn(3) == 0 {
				s2 = mutate(rng, s2)
			}
			add("mutated", t.text(), s2)
		case r < 93: // unrelated short target
			t := randTpl(rng, true)
			add("unrelated", t.text(), randWord(rng, valAlphabet, 0, 3))
		default: // malformed template text
			add("malformed", randWord(rng, []string{"${", "}", "$", "{", "1", ".", "a", "${b}"}, 0, 6), randWord(rng, []string{"1", ".", "a", "}", "2"}, 0, 5))
		}
	}
	out := make([]anyCase, len(cases))
	for i, c := range cases {
		c.run()
		out[i] = c
	}
	return out
}

package main

import (
	"encoding/json"
	"fmt"
	"math/rand"
	"os"
	"path/filepath"
	"sort"
	"strings"

	"deps.dev/util/resolve"
	"deps.dev/util/resolve/dep"
	scalibrfs "github.com/google/osv-scalibr/fs"
	"github.com/google/osv-scalibr/guidedremediation"
	"github.com/google/osv-scalibr/guidedremediation/result"

	cf "verifharness/internal/coqfmt"
)

// ---------------------------------------------------------------- structured package.json

type jMember struct {
	Pre  string `json:"pre"`
	Key  string `json:"key"`
	Mid  string `json:"mid"`
	Val  string `json:"val"`
	Post string `json:"post"`
}

type jItem struct {
	Pre     string    `json:"pre"`
	Key     string    `json:"key"`
	Mid     string    `json:"mid"`
	Section bool      `json:"section"`
	Members []jMember `json:"members,omitempty"`
	EmptyWS string    `json:"empty_ws,omitempty"`
	Raw     string    `json:"raw,omitempty"`
	Post    string    `json:"post"`
}

type jDoc struct {
	Lead    string  `json:"lead"`
	Items   []jItem `json:"items"`
	EmptyWS string  `json:"empty_ws"`
	Trail   string  `json:"trail"`
}

func quoteRaw(s string) string { return "\"" + s + "\"" }

func (m jMember) render() string {
	return m.Pre + quoteRaw(m.Key) + m.Mid + quoteRaw(m.Val) + m.Post
}

func (t jItem) render() string {
	v := t.Raw
	if t.Section {
		if len(t.Members) == 0 {
			v = "{" + t.EmptyWS + "}"
		} else {
			parts := make([]string, len(t.Members))
			for i, m := range t.Members {
				parts[i] = m.render()
			}
			v = "{" + strings.Join(parts, ",") + "}"
		}
	}
	return t.Pre + quoteRaw(t.Key) + t.Mid + v + t.Post
}

func (d jDoc) render() string {
	body := d.EmptyWS
	if len(d.Items) > 0 {
		parts := make([]string, len(d.Items))
		for i, t := range d.Items {
			parts[i] = t.render()
		}
		body = strings.Join(parts, ",")
	}
	return d.Lead + "{" + body + "}" + d.Trail
}

func (m jMember) coq() string {
	return fmt.Sprintf("{| m_pre := %s; m_key := %s; m_mid := %s; m_val := %s; m_post := %s |}",
		cf.Str(m.Pre), cf.Str(m.Key), cf.Str(m.Mid), cf.Str(m.Val), cf.Str(m.Post))
}

func (t jItem) coq() string {
	var v string
	if t.Section {
		ms := make([]string, len(t.Members))
		for i, m := range t.Members {
			ms[i] = m.coq()
		}
		l := "(@nil member)"
		if len(ms) > 0 {
			l = cf.List(ms)
		}
		v = fmt.Sprintf("(TSection %s %s)", l, cf.Str(t.EmptyWS))
	} else {
		v = fmt.Sprintf("(TRaw %s)", cf.Str(t.Raw))
	}
	return fmt.Sprintf("{| t_pre := %s; t_key := %s; t_mid := %s; t_val := %s; t_post := %s |}",
		cf.Str(t.Pre), cf.Str(t.Key), cf.Str(t.Mid), v, cf.Str(t.Post))
}

func (d jDoc) coq() string {
	its := make([]string, len(d.Items))
	for i, t := range d.Items {
		its[i] = t.coq()
	}
	l := "(@nil item)"
	if len(its) > 0 {
		l = cf.List(its)
	}
	return fmt.Sprintf("{| d_lead := %s; d_items := %s; d_empty_ws := %s; d_trail := %s |}",
		cf.Str(d.Lead), l, cf.Str(d.EmptyWS), cf.Str(d.Trail))
}

// ---------------------------------------------------------------- cases

type jUpdate struct {
	Name    string `json:"name"`
	KnownAs string `json:"known_as,omitempty"`
	Alias   bool   `json:"alias,omitempty"`
	From    string `json:"from"`
	To      string `json:"to"`
}

func (u jUpdate) coq() string {
	return fmt.Sprintf("{| u_name := %s; u_known_as := %s; u_from := %s; u_to := %s |}",
		cf.Str(u.Name), cf.Option(u.Alias, cf.Str(u.KnownAs)), cf.Str(u.From), cf.Str(u.To))
}

type pkgjsonCase struct {
	Stream   string    `json:"stream"`
	Doc      jDoc      `json:"doc"`
	Updates  []jUpdate `json:"updates"`
	Outcome  string    `json:"outcome"` // ok | err | panic | read-error
	Err      string    `json:"err,omitempty"`
	Input    string    `json:"input"`
	Output   string    `json:"output,omitempty"`
	RereadOK bool      `json:"reread_ok"`
	FromRead bool      `json:"from_read"` // every update was built from a requirement Read reported
	Reqs     []string  `json:"reqs,omitempty"`
	Reread   []string  `json:"reread,omitempty"`
}

func (c *pkgjsonCase) coq() string {
	obs := "JObsErr"
	switch c.Outcome {
	case "ok":
		obs = fmt.Sprintf("(JObsOk %s)", cf.Str(c.Output))
	case "panic":
		obs = "JObsPanic"
	}
	ups := make([]string, len(c.Updates))
	for i, u := range c.Updates {
		ups[i] = u.coq()
	}
	l := "(@nil jupdate)"
	if len(ups) > 0 {
		l = cf.List(ups)
	}
	return fmt.Sprintf("{| jc_doc := %s; jc_input := %s; jc_updates := %s; jc_obs := %s; jc_reread_ok := %s; jc_from_read := %s |}",
		c.Doc.coq(), cf.Str(c.Input), l, obs, cf.Bool(c.RereadOK), cf.Bool(c.FromRead))
}

func reqString(r resolve.RequirementVersion) string {
	ka, _ := r.Type.GetAttr(dep.KnownAs)
	opt := ""
	if r.Type.HasAttr(dep.Opt) {
		opt = "opt"
	}
	return fmt.Sprintf("%s|%s|%s|%s", r.Name, ka, r.Version, opt)
}

func readNpm(dir string) (guidedremediation.VerifManifest, []resolve.RequirementVersion, error) {
	m, err := guidedremediation.VerifManifestRead(resolve.NPM, "", "package.json", scalibrfs.DirFS(dir))
	if err != nil {
		return nil, nil, err
	}
	return m, m.Requirements(), nil
}

// run writes the input, reads it, applies the updates with the real writer and re-reads the result.
// pickUpdates (optional) chooses the updates once the requirements are known.
func (c *pkgjsonCase) run(pickUpdates func(reqs []resolve.RequirementVersion) []jUpdate) {
	dir, err := os.MkdirTemp("", "c13npm")
	if err != nil {
		panic(err)
	}
	defer os.RemoveAll(dir)
	c.Input = c.Doc.render()
	c.Output, c.Err, c.RereadOK, c.Reqs, c.Reread = "", "", false, nil, nil
	if err := os.WriteFile(filepath.Join(dir, "package.json"), []byte(c.Input), 0o644); err != nil {
		panic(err)
	}
	m, reqs, err := readNpm(dir)
	if err != nil {
		c.Outcome = "read-error"
		c.Err = err.Error()
		return
	}
	if pickUpdates != nil {
		c.Updates = pickUpdates(reqs)
	}
	for _, r := range reqs {
		c.Reqs = append(c.Reqs, reqString(r))
	}
	c.FromRead = len(c.Updates) > 0
	for _, u := range c.Updates {
		found := false
		for _, r := range reqs {
			ka, has := r.Type.GetAttr(dep.KnownAs)
			found = found || (u.Name == r.Name && u.Alias == has && (!has || u.KnownAs == ka) && u.From == r.Version)
		}
		c.FromRead = c.FromRead && found
	}
	ups := make([]result.PackageUpdate, len(c.Updates))
	for i, u := range c.Updates {
		typ := dep.NewType()
		if u.Alias {
			typ.AddAttr(dep.KnownAs, u.KnownAs)
		}
		ups[i] = result.PackageUpdate{Name: u.Name, VersionFrom: u.From, VersionTo: u.To, Type: typ}
	}
	outDir := filepath.Join(dir, "out")
	outPath := filepath.Join(outDir, "package.json")
	func() {
		defer func() {
			if r := recover(); r != nil {
				c.Outcome = "panic"
				c.Err = fmt.Sprint(r)
			}
		}()
		if err := guidedremediation.VerifManifestWrite(resolve.NPM, "", m, scalibrfs.DirFS(dir), ups, outPath); err != nil {
			c.Outcome = "err"
			c.Err = err.Error()
			return
		}
		c.Outcome = "ok"
	}()
	if c.Outcome != "ok" {
		return
	}
	b, err := os.ReadFile(outPath)
	if err != nil {
		c.Outcome = "err"
		c.Err = "no output: " + err.Error()
		return
	}
	c.Output = string(b)
	// round trip: requirements of the written file = original requirements with the versions substituted
	_, reqs2, err := readNpm(outDir)
	if err != nil {
		c.Err = "reread: " + err.Error()
		return
	}
	var want []string
	for _, r := range reqs {
		ka, hasKA := r.Type.GetAttr(dep.KnownAs)
		for _, u := range c.Updates {
			if u.Name == r.Name && u.Alias == hasKA && (!hasKA || u.KnownAs == ka) && u.From == r.Version {
				r.Version = u.To
				break
			}
		}
		want = append(want, reqString(r))
	}
	for _, r := range reqs2 {
		c.Reread = append(c.Reread, reqString(r))
	}
	a, b2 := append([]string{}, want...), append([]string{}, c.Reread...)
	sort.Strings(a)
	sort.Strings(b2)
	c.RereadOK = strings.Join(a, "\n") == strings.Join(b2, "\n")
}

// ---------------------------------------------------------------- generator

var (
	plainNames  = []string{"lodash", "express", "left-pad", "react_dom", "a", "b2", "chalk", "UPPER", "x-y-z", "7zip", "-1", "0"}
	scopedNames = []string{"@types/node", "@scope/pkg", "@babel/core", "@a/b", "@x-y/z_w"}
	dottedNames = []string{"socket.io", "lodash.merge", "@types/socket.io", "a.b.c", "big.js", "a.", ".hidden", "lodash.*"}
	wildNames   = []string{"a*", "*", "lod?sh", "x?", "jquery*ui", "?", "ch*"}
	exoticNames = []string{"a|b", "we\\\\ird", "a#b", ":x", "!y", "x@y", "[z", "@this.x", "{q", "@pretty"}
	npmVersions = []string{"^1.2.3", "~2.0.0", "1.0.0", ">=1.0.0 <2.0.0", "*", "latest", "1.x", "2 || 3", "^0.0.1", "", "10.1.0-beta.1", "<3"}
	newVersions = []string{"^1.2.4", "^2.0.0", "3.1.4", "~0.9.0", "^10.0.0", "1", ">=4 <5", "9.9.9-rc.1", ""}
	wsStyles    = [][4]string{ // item indent, member indent, after colon, newline
		{"  ", "    ", " ", "\n"},
		{"", "", "", ""},
		{"\t", "\t\t", " ", "\n"},
		{" ", "  ", "  ", "\r\n"},
		{"    ", "        ", " ", "\n"},
	}
	rawItems = [][2]string{
		{"name", "\"demo-app\""}, {"version", "\"1.0.0\""}, {"private", "true"}, {"description", "\"a \\\"quoted\\\" } { text\""},
		{"scripts", "{\"test\": \"jest\", \"build\": \"tsc -p .\"}"}, {"files", "[\"dist\", \"src/*.js\"]"},
		{"config", "{\"dependencies\": {\"lodash\": \"0.0.0\"}, \"n\": [1, 2.5e3, null]}"}, {"license", "\"MIT\""},
		{"engines", "{ \"node\" : \">=14\" }"}, {"main", "\"index.js\""},
	}
)

func pickName(rng *rand.Rand, exotic bool) string {
	r := rng.Intn(100)
	switch {
	case exotic && r < 30:
		return pick(rng, exoticNames)
	case r < 40:
		return pick(rng, plainNames)
	case r < 60:
		return pick(rng, scopedNames)
	case r < 85:
		return pick(rng, dottedNames)
	default:
		return pick(rng, wildNames)
	}
}

// aliasTarget is a real package that only this alias key stands for (a function of the key, never one of the
// plain keys). Since the reader merges by requirement key (package + alias) alias twins are deterministic too and
// are generated next to these.
func aliasTarget(key string) string {
	h := fmt.Sprintf("%x", key)
	if strings.HasPrefix(key, "@") {
		return "@real/t" + h
	}
	return "real-" + h
}

func randWS(rng *rand.Rand, weird bool) string {
	if !weird {
		return ""
	}
	return randWord(rng, []string{" ", "\t", "\n", "", ""}, 0, 2)
}

func genDoc(rng *rand.Rand, exotic bool) jDoc {
	st := wsStyles[rng.Intn(len(wsStyles))]
	weird := rng.Intn(5) == 0
	nl := st[3]
	var d jDoc
	if rng.Intn(6) == 0 {
		d.Lead = randWS(rng, true)
	}
	d.Trail = pick(rng, []string{"\n", "", "\n\n", " "})
	d.EmptyWS = pick(rng, []string{"", " ", "\n"})
	secNames := []string{"dependencies", "devDependencies", "optionalDependencies", "peerDependencies"}
	var keys []string
	for _, s := range secNames {
		if rng.Intn(10) < 7 {
			keys = append(keys, s)
		}
	}
	nraw := rng.Intn(5)
	perm := rng.Perm(len(rawItems))
	rawOf := map[string]string{}
	for i := 0; i < nraw; i++ {
		keys = append(keys, rawItems[perm[i]][0])
		rawOf[rawItems[perm[i]][0]] = rawItems[perm[i]][1]
	}
	rng.Shuffle(len(keys), func(i, j int) { keys[i], keys[j] = keys[j], keys[i] })
	// a shared pool so that one name shows up in several sections
	var pool []string
	for i := 0; i < 2+rng.Intn(5); i++ {
		pool = append(pool, pickName(rng, exotic))
	}
	for _, k := range keys {
		t := jItem{Key: k, Pre: nl + st[0] + randWS(rng, weird), Mid: randWS(rng, weird) + ":" + st[2] + randWS(rng, weird), Post: randWS(rng, weird)}
		if raw, ok := rawOf[k]; ok {
			t.Raw = raw
		} else {
			t.Section = true
			t.EmptyWS = pick(rng, []string{"", " ", nl + st[0]})
			used := map[string]bool{}
			n := rng.Intn(5)
			for i := 0; i < n; i++ {
				name := pick(rng, pool)
				if rng.Intn(4) == 0 {
					name = pickName(rng, exotic)
				}
				if used[name] {
					continue
				}
				used[name] = true
				ver := pick(rng, npmVersions)
				if rng.Intn(6) == 0 { // alias: key is the alias, value npm:real@ver
					switch rng.Intn(3) {
					case 0: // aliased to its own name (scoped names included)
						ver = "npm:" + name + "@" + ver
					case 1: // a target of its own
						ver = "npm:" + aliasTarget(name) + "@" + ver
					default: // alias twins: several keys, in one section or across sections, for one real package
						ver = "npm:" + pick(rng, append(append([]string{}, plainNames[:6]...), scopedNames[:3]...)) + "@" + ver
					}
				}
				if rng.Intn(25) == 0 { // non-registry requirement, skipped by Read
					ver = pick(rng, []string{"git+https://example.com/r.git", "file:../x", "user/repo"})
				}
				m := jMember{Key: name, Val: ver, Pre: nl + st[1] + randWS(rng, weird), Mid: randWS(rng, weird) + ":" + st[2], Post: randWS(rng, weird)}
				t.Members = append(t.Members, m)
			}
			if len(t.Members) > 0 {
				t.Members[len(t.Members)-1].Post += nl + st[0]
			}
		}
		d.Items = append(d.Items, t)
	}
	if len(d.Items) > 0 {
		d.Items[len(d.Items)-1].Post += nl
	}
	return d
}

func updateFromReq(rng *rand.Rand, r resolve.RequirementVersion) jUpdate {
	ka, has := r.Type.GetAttr(dep.KnownAs)
	to := pick(rng, newVersions)
	for to == r.Version {
		to = pick(rng, newVersions)
	}
	return jUpdate{Name: r.Name, KnownAs: ka, Alias: has, From: r.Version, To: to}
}

type pkgjsonEmitter struct{}

func (pkgjsonEmitter) header() string {
	return "From Coq Require Import List ZArith NArith Bool.\n" +
		"From Scalibr Require Import Writers.GoBytes Writers.PkgJson.\nImport ListNotations.\n"
}
func (pkgjsonEmitter) caseType() string { return "jcase" }

func (pkgjsonEmitter) fromJSON(raw json.RawMessage) (anyCase, error) {
	var c pkgjsonCase
	if err := json.Unmarshal(raw, &c); err != nil {
		return nil, err
	}
	c.run(nil)
	return &c, nil
}

func simpleDoc(members map[string][][2]string, order []string) jDoc {
	d := jDoc{Trail: "\n"}
	d.Items = append(d.Items, jItem{Pre: "\n  ", Key: "name", Mid: ": ", Raw: "\"demo\""})
	for _, sec := range order {
		t := jItem{Pre: "\n  ", Key: sec, Mid: ": ", Section: true}
		for _, kv := range members[sec] {
			t.Members = append(t.Members, jMember{Pre: "\n    ", Key: kv[0], Mid: ": ", Val: kv[1]})
		}
		if len(t.Members) > 0 {
			t.Members[len(t.Members)-1].Post = "\n  "
		}
		d.Items = append(d.Items, t)
	}
	d.Items[len(d.Items)-1].Post += "\n"
	return d
}

func (pkgjsonEmitter) generate(rng *rand.Rand, n int) []anyCase {
	var out []anyCase
	fixed := func(stream string, d jDoc, ups []jUpdate) {
		c := &pkgjsonCase{Stream: stream, Doc: d, Updates: ups}
		c.run(nil)
		out = append(out, c)
	}
	// boundary cases, always present
	fixed("boundary", simpleDoc(map[string][][2]string{"dependencies": {{"lodash", "^4.0.0"}, {"socket.io", "^2.0.0"}}}, []string{"dependencies"}),
		[]jUpdate{{Name: "socket.io", From: "^2.0.0", To: "^4.7.0"}})
	fixed("boundary", simpleDoc(map[string][][2]string{"dependencies": {{"lodash", "^4.0.0"}, {"socket.io", "^2.0.0"}}}, []string{"dependencies"}),
		[]jUpdate{{Name: "lodash", From: "^4.0.0", To: "^4.17.21"}})
	fixed("boundary", simpleDoc(map[string][][2]string{"dependencies": {{"ab", "1.0.0"}, {"a*", "2.0.0"}}}, []string{"dependencies"}),
		[]jUpdate{{Name: "a*", From: "2.0.0", To: "2.0.1"}})
	fixed("boundary", simpleDoc(map[string][][2]string{"dependencies": {{"a*", "2.0.0"}, {"ab", "2.0.0"}}}, []string{"dependencies"}),
		[]jUpdate{{Name: "ab", From: "2.0.0", To: "2.0.1"}})
	fixed("boundary", simpleDoc(map[string][][2]string{"dependencies": {{"x", "1.0.0"}}, "devDependencies": {{"x", "2.0.0"}}, "optionalDependencies": {{"x", "1.0.0"}}},
		[]string{"dependencies", "optionalDependencies", "devDependencies"}), []jUpdate{{Name: "x", From: "2.0.0", To: "2.0.1"}})
	fixed("boundary", simpleDoc(map[string][][2]string{"dependencies": {{"x", "1.0.0"}}, "devDependencies": {{"x", "2.0.0"}}},
		[]string{"devDependencies", "dependencies"}), []jUpdate{{Name: "x", From: "1.0.0", To: "1.0.1"}})
	fixed("boundary", simpleDoc(map[string][][2]string{"dependencies": {{"al", "npm:real@^1.0.0"}, {"real", "^0.5.0"}}}, []string{"dependencies"}),
		[]jUpdate{{Name: "real", KnownAs: "al", Alias: true, From: "^1.0.0", To: "^1.2.0"}})
	fixed("boundary", simpleDoc(map[string][][2]string{"dependencies": {{"@types/socket.io", "^1.0.0"}, {"@types/node", "^18.0.0"}}}, []string{"dependencies"}),
		[]jUpdate{{Name: "@types/socket.io", From: "^1.0.0", To: "^3.0.0"}, {Name: "@types/node", From: "^18.0.0", To: "^20.0.0"}})
	fixed("boundary", simpleDoc(map[string][][2]string{"dependencies": {{"lodash", "npm:lodash@^4.17.0"}, {"@types/node", "npm:@types/node@^18.0.0"}}}, []string{"dependencies"}),
		[]jUpdate{{Name: "lodash", KnownAs: "lodash", Alias: true, From: "^4.17.0", To: "^4.17.21"}})
	{ // the same, with the update built from what Read reports (whatever attributes it carries)
		c := &pkgjsonCase{Stream: "boundary", Doc: simpleDoc(map[string][][2]string{"dependencies": {{"lodash", "npm:lodash@^4.17.0"}, {"@types/node", "npm:@types/node@^18.0.0"}},
			"devDependencies": {{"twin", "npm:lodash@^3.0.0"}}}, []string{"dependencies", "devDependencies"})}
		c.run(func(reqs []resolve.RequirementVersion) []jUpdate {
			var ups []jUpdate
			for _, r := range reqs {
				ups = append(ups, updateFromReq(rng, r))
			}
			return ups
		})
		out = append(out, c)
	}
	fixed("zero-updates", simpleDoc(map[string][][2]string{"dependencies": {{"lodash", "^4.0.0"}}}, []string{"dependencies"}), nil)

	for i := 0; i < n; i++ {
		r := rng.Intn(100)
		exotic := r >= 94
		c := &pkgjsonCase{Doc: genDoc(rng, exotic)}
		switch {
		case r < 10:
			c.Stream = "zero-updates"
			c.run(func([]resolve.RequirementVersion) []jUpdate { return nil })
		case r < 75 || exotic:
			c.Stream = "addressed"
			if exotic {
				c.Stream = "exotic-names"
			}
			c.run(func(reqs []resolve.RequirementVersion) []jUpdate {
				var ups []jUpdate
				perm := rng.Perm(len(reqs))
				k := 1 + rng.Intn(3)
				for _, j := range perm {
					if len(ups) >= k {
						break
					}
					ups = append(ups, updateFromReq(rng, reqs[j]))
				}
				return ups
			})
		case r < 87: // version in the patch does not match the file
			c.Stream = "mismatch"
			c.run(func(reqs []resolve.RequirementVersion) []jUpdate {
				var ups []jUpdate
				for _, j := range rng.Perm(len(reqs)) {
					u := updateFromReq(rng, reqs[j])
					if len(ups) == 0 || rng.Intn(2) == 0 {
						u.From = pick(rng, npmVersions)
					}
					ups = append(ups, u)
					if len(ups) >= 2 {
						break
					}
				}
				return ups
			})
		default: // update for a package the file does not mention, or repeated updates of one key
			c.Stream = "absent-or-repeated"
			c.run(func(reqs []resolve.RequirementVersion) []jUpdate {
				ups := []jUpdate{{Name: pickName(rng, false), From: pick(rng, npmVersions), To: pick(rng, newVersions)}}
				if len(reqs) > 0 && rng.Intn(2) == 0 {
					u := updateFromReq(rng, reqs[rng.Intn(len(reqs))])
					u2 := u
					u2.From, u2.To = u.To, pick(rng, newVersions)
					ups = append(ups, u, u2)
				}
				return ups
			})
		}
		if c.Outcome == "read-error" {
			continue
		}
		out = append(out, c)
	}
	return out
}

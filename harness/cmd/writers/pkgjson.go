package main

import (
	"encoding/json"
	"errors"
	"math/rand"
)

type pkgjsonEmitter struct{}

func (pkgjsonEmitter) header() string                        { return "" }
func (pkgjsonEmitter) caseType() string                      { return "jcase" }
func (pkgjsonEmitter) generate(*rand.Rand, int) []anyCase    { return nil }
func (pkgjsonEmitter) fromJSON(json.RawMessage) (anyCase, error) { return nil, errors.New("todo") }

package main

import (
	"fmt"
	"sort"
	"strings"

	cf "verifharness/internal/coqfmt"
)

// Token streams for the Coq token-level model (Writers.PomTokens): per pom of the chain the encoding/xml
// tokens of the input and of the written file (adjacent character data merged), with names/attributes/texts
// interned per case, and -- in document order -- for every rewritten <version> element the index of its
// declaration in the declaration-level reading, for every direct child of <properties> the index of its
// property definition.

type tokDump struct {
	In, Out    []string
	VMap, PMap []int
}

func (t tokDump) coq() string {
	nats := func(l []int) string {
		if len(l) == 0 {
			return "(@nil nat)"
		}
		s := make([]string, len(l))
		for i, n := range l {
			s[i] = fmt.Sprintf("%d", n)
		}
		return "[" + strings.Join(s, ";") + "]%nat"
	}
	toks := func(l []string) string {
		if len(l) == 0 {
			return "(@nil tok)"
		}
		return "[" + strings.Join(l, ";") + "]%N"
	}
	return fmt.Sprintf("{| tf_in := %s; tf_out := %s; tf_vmap := %s; tf_pmap := %s |}", toks(t.In), toks(t.Out), nats(t.VMap), nats(t.PMap))
}

func kindOf(local string) int {
	switch local {
	case "version":
		return 1
	case "dependency":
		return 2
	case "parent":
		return 3
	case "properties":
		return 4
	}
	return 0
}

type interner struct {
	ids   map[string]uint64
	bytes map[uint64]string // ids whose bytes the model may need
}

func (in *interner) id(kind, s string) uint64 {
	k := kind + "\x00" + s
	if v, ok := in.ids[k]; ok {
		return v
	}
	v := uint64(len(in.ids) + 1)
	in.ids[k] = v
	return v
}

func (in *interner) text(s string, relevant bool) uint64 {
	v := in.id("T", s)
	if relevant {
		in.bytes[v] = s
	}
	return v
}

func hasCtx(stack []string) bool {
	for _, s := range stack {
		if s == "dependency" || s == "parent" {
			return true
		}
	}
	return false
}

// relevantText: inside a rewritten <version> element or inside a direct child of <properties>
func relevantText(path string) bool {
	parts := strings.Split(path, ">")
	for i, p := range parts {
		if p == "version" && hasCtx(parts[:i]) {
			return true
		}
		if p == "properties" && i+1 < len(parts) {
			return true
		}
	}
	return false
}

func (in *interner) coqToks(ts []tok) []string {
	out := make([]string, len(ts))
	for i, t := range ts {
		switch t.Kind {
		case "S":
			out[i] = fmt.Sprintf("TStart %d %d", kindOf(t.Local), in.id("S", t.Text))
		case "E":
			out[i] = fmt.Sprintf("TEnd %d %d", kindOf(t.Local), in.id("E", t.Text))
		case "T":
			out[i] = fmt.Sprintf("TText %d", in.text(t.Text, relevantText(t.Path)))
		case "C":
			out[i] = fmt.Sprintf("TComment %d", in.id("C", t.Text))
		case "P":
			out[i] = fmt.Sprintf("TPI %d", in.id("P", t.Text))
		default:
			out[i] = fmt.Sprintf("TDir %d", in.id("D", t.Text))
		}
	}
	return out
}

// endOf: index of the end tag matching the start tag at i
func endOf(ts []tok, i int) int {
	depth := 0
	for j := i; j < len(ts); j++ {
		if ts[j].Kind == "S" {
			depth++
		} else if ts[j].Kind == "E" {
			depth--
			if depth == 0 {
				return j
			}
		}
	}
	return len(ts) - 1
}

// childText: trimmed text of the direct child `name` of the element starting at i ("" if none)
func childText(ts []tok, i int, name string) string {
	end := endOf(ts, i)
	depth := 0
	val := ""
	for j := i; j <= end; j++ {
		switch ts[j].Kind {
		case "S":
			depth++
			if depth == 2 && ts[j].Local == name {
				e := endOf(ts, j)
				txt := ""
				d2 := 0
				for k := j; k <= e; k++ {
					if ts[k].Kind == "S" {
						d2++
					} else if ts[k].Kind == "E" {
						d2--
					} else if ts[k].Kind == "T" && d2 == 1 {
						txt += ts[k].Text
					}
				}
				val = strings.TrimSpace(txt)
			}
		case "E":
			depth--
		}
	}
	return val
}

// occurrences walks the input tokens the way Writers.PomTokens.tok_write does and maps every decision point
// to the declaration-level reading of this pom.
func occurrences(ts []tok, dp dPom) (vmap, pmap []int) {
	type open struct {
		local        string
		profile      string // id when this element is a <profile>
		plugin       string
		key          string // when <dependency> or <parent>
		isParentElem bool
	}
	var stack []open
	propSeen := map[string]int{}
	locals := func() []string {
		out := make([]string, len(stack))
		for i, o := range stack {
			out[i] = o.local
		}
		return out
	}
	origin := func() string {
		prof, plug, mgmt := "", "", false
		for _, o := range stack {
			if o.local == "profile" && prof == "" {
				prof = o.profile
			}
			if o.local == "plugin" && plug == "" {
				plug = o.plugin
			}
			if o.local == "dependencyManagement" {
				mgmt = true
			}
		}
		base := ""
		if prof != "" {
			base = "profile@" + prof
		} else if plug != "" {
			base = "plugin@" + plug
		}
		if mgmt {
			if base == "" {
				return "management"
			}
			return base + "@management"
		}
		return base
	}
	for i := 0; i < len(ts); i++ {
		t := ts[i]
		switch t.Kind {
		case "S":
			ls := locals()
			if t.Local == "version" && hasCtx(ls) {
				// nearest dependency / parent ancestor
				idx := 9999
				for k := len(stack) - 1; k >= 0; k-- {
					if stack[k].local == "dependency" || stack[k].local == "parent" {
						o := origin()
						if stack[k].local == "parent" {
							o = "parent"
						}
						for di, d := range dp.Decls {
							if d.Origin == o && d.Key == stack[k].key {
								idx = di
								break
							}
						}
						break
					}
				}
				vmap = append(vmap, idx)
				i = endOf(ts, i)
				continue
			}
			if len(ls) > 0 && ls[len(ls)-1] == "properties" {
				o := ""
				for _, op := range stack {
					if op.local == "profile" {
						o = "profile@" + op.profile
					}
				}
				k := o + "\x00" + t.Local
				n := propSeen[k]
				propSeen[k] = n + 1
				idx, seen := 9999, 0
				for pi, pf := range dp.Props {
					if pf.Origin == o && pf.Name == t.Local {
						if seen == n {
							idx = pi
							break
						}
						seen++
					}
				}
				pmap = append(pmap, idx)
			}
			o := open{local: t.Local}
			switch t.Local {
			case "profile":
				o.profile = childText(ts, i, "id")
			case "plugin":
				o.plugin = childText(ts, i, "groupId") + ":" + childText(ts, i, "artifactId")
			case "dependency":
				o.key = mReqKey(childText(ts, i, "groupId")+":"+childText(ts, i, "artifactId"), childText(ts, i, "type"), childText(ts, i, "classifier"))
			case "parent":
				o.key = mReqKey(childText(ts, i, "groupId")+":"+childText(ts, i, "artifactId"), "pom", "")
			}
			stack = append(stack, o)
		case "E":
			if len(stack) > 0 {
				stack = stack[:len(stack)-1]
			}
		}
	}
	return vmap, pmap
}

func (c *pomCase) dumpTokens(chainPaths []string, after map[string]string) {
	for _, u := range c.Updates {
		if u.New {
			return // the inserted entries are not part of the token-level model
		}
	}
	in := &interner{ids: map[string]uint64{}, bytes: map[uint64]string{}}
	var files []tokDump
	for fi, p := range chainPaths {
		ti, err1 := tokenize(c.Files[p])
		to, err2 := tokenize(after[p])
		if err1 != nil || err2 != nil || fi >= len(c.DChain) {
			return
		}
		vm, pm := occurrences(ti, c.DChain[fi])
		files = append(files, tokDump{In: in.coqToks(ti), Out: in.coqToks(to), VMap: vm, PMap: pm})
	}
	// every text the declaration-level model can produce
	for _, chain := range [][]dPom{c.DChain, c.DAfter} {
		for _, dp := range chain {
			for _, d := range dp.Decls {
				in.text(d.Ver, true)
			}
			for _, f := range dp.Props {
				in.text(f.Val, true)
			}
		}
	}
	for _, u := range c.Updates {
		in.text(u.To, true)
	}
	ids := make([]uint64, 0, len(in.bytes))
	for id := range in.bytes {
		ids = append(ids, id)
	}
	sort.Slice(ids, func(a, b int) bool { return ids[a] < ids[b] })
	entries := make([]string, len(ids))
	for i, id := range ids {
		entries[i] = fmt.Sprintf("(%s, %s)", cf.N(id), cf.Str(in.bytes[id]))
	}
	if len(entries) > 0 {
		c.tokTable = cf.List(entries)
	}
	c.tokFiles = files
	c.TokDumpOK = c.ChainOK
}

// Command engineconf is the "real extractors side by side" part of the C02 check: it runs
// filesystem.Run with real built-in extractors (plus, in some scenarios, one fake extractor that requires the
// same file as a real one and fails on it) over a small on-disk tree that holds one or more corrupt files next
// to healthy files of other formats, and compares the run with its COUNTERFACTUAL in which the failing inputs
// are healthy / the failing extractor succeeds: the scan must complete, and for every other extractor the
// packages and the PluginStatus must be identical (C02, second sentence). This is a test oracle over concrete
// scenarios (search), not a proof.
package main

import (
	"context"
	"encoding/json"
	"errors"
	"flag"
	"fmt"
	"math/rand"
	"os"
	"path/filepath"
	"sort"
	"strings"

	"github.com/google/osv-scalibr/extractor"
	"github.com/google/osv-scalibr/extractor/filesystem"
	"github.com/google/osv-scalibr/extractor/filesystem/list"
	scalibrfs "github.com/google/osv-scalibr/fs"
	"github.com/google/osv-scalibr/inventory"
	scalibrlog "github.com/google/osv-scalibr/log"
	"github.com/google/osv-scalibr/plugin"
	"github.com/google/osv-scalibr/purl"
	"github.com/google/osv-scalibr/stats"
)

type quiet struct{}

func (quiet) Errorf(string, ...any) {}
func (quiet) Error(...any)          {}
func (quiet) Warnf(string, ...any)  {}
func (quiet) Warn(...any)           {}
func (quiet) Infof(string, ...any)  {}
func (quiet) Info(...any)           {}
func (quiet) Debugf(string, ...any) {}
func (quiet) Debug(...any)          {}

// one file format: the extractor, the path it requires, healthy and corrupt content
type format struct {
	Ext     string
	Path    string
	Healthy string
	Corrupt []string // contents on which Extract returns an error
}

var formats = []format{
	{"os/apk", "lib/apk/db/installed", "P:musl\nV:1.2.3-r0\n\nP:zlib\nV:1.2.13-r1\n", []string{"P:musl\nthis line has no colon\n"}},
	{"java/gradlelockfile", "gradle.lockfile", "# comment\norg.a:b:1.0=compileClasspath\nempty=\n", []string{strings.Repeat("x", 70000) + "\n"}},
	{"ruby/gemfilelock", "Gemfile.lock", "GEM\n  remote: https://rubygems.org/\n  specs:\n    ast (2.4.2)\n\nPLATFORMS\n  ruby\n", []string{"    early (1.0)\n"}},
	{"php/composerlock", "composer.lock", `{"packages":[{"name":"a/b","version":"1.0"}],"packages-dev":[]}`, []string{"{", `{"packages": 3}`}},
	{"rust/cargolock", "Cargo.lock", "[[package]]\nname = \"a\"\nversion = \"1.0.0\"\n", []string{"[[package", "name = = 3"}},
	{"python/requirements", "requirements.txt", "six==1.16.0\nPyYAML==6.0\n", []string{strings.Repeat("y", 70000)}},
	{"go/gomod", "go.mod", "module example.com/m\n\ngo 1.21\n\nrequire github.com/a/b v1.2.3\n", []string{"module example.com/m\nrequire github.com/a/b not-a-version\n"}},
	{"javascript/packagelockjson", "package-lock.json", `{"lockfileVersion":3,"packages":{"":{"name":"r"},"node_modules/a":{"version":"1.0.0"}}}`, []string{"{", `{"packages": [1]}`}},
	{"python/poetrylock", "poetry.lock", "[[package]]\nname = \"a\"\nversion = \"1.0\"\n", []string{"[[package", "x = [1, \"a\""}},
	{"os/dpkg", "var/lib/dpkg/status", "Package: a\nStatus: install ok installed\nVersion: 1.0\n", []string{" indented first line\n", "Package: a\nStatus: broken\nVersion: 1\n"}},
	{"python/pipfilelock", "Pipfile.lock", `{"default":{"a":{"version":"==1.0"}},"develop":{}}`, []string{"[1,2"}},
	{"dotnet/packageslockjson", "packages.lock.json", `{"version":1,"dependencies":{"net6.0":{"A.B":{"resolved":"1.0.0"}}}}`, []string{"{\"dependencies\": 7}"}},
}

// fakeFail requires the given paths; on them it returns an error (optionally with a partial result) unless ok is set.
type fakeFail struct {
	paths   map[string]bool
	ok      bool
	partial bool
}

func (f *fakeFail) Name() string                               { return "verif/failing" }
func (f *fakeFail) Version() int                               { return 0 }
func (f *fakeFail) Requirements() *plugin.Capabilities         { return &plugin.Capabilities{} }
func (f *fakeFail) ToPURL(*extractor.Package) *purl.PackageURL { return nil }
func (f *fakeFail) Ecosystem(*extractor.Package) string        { return "" }
func (f *fakeFail) FileRequired(api filesystem.FileAPI) bool   { return f.paths[filepath.ToSlash(api.Path())] }
func (f *fakeFail) Extract(_ context.Context, in *filesystem.ScanInput) (inventory.Inventory, error) {
	inv := inventory.Inventory{}
	if f.partial || f.ok {
		inv.Packages = []*extractor.Package{{Name: "partial-from-" + in.Path, Version: "0", Locations: []string{in.Path}}}
	}
	if f.ok {
		return inv, nil
	}
	return inv, errors.New("verif: this extractor cannot read the file")
}

// Scenario is a concrete, replayable situation.
type Scenario struct {
	ID        int               `json:"id"`
	Order     []string          `json:"extractor_order"`          // names, "verif/failing" = the fake
	Files     map[string]string `json:"files"`                    // path -> content of the FAILING run
	Repaired  map[string]string `json:"counterfactual_files"`     // only the paths whose content differs
	FakePaths []string          `json:"fake_extractor_paths,omitempty"`
	Partial   bool              `json:"fake_partial,omitempty"`
	Failing   []string          `json:"extractors_expected_to_fail"`
	Verdict   string            `json:"verdict"` // ok | violated | harness-error
	Problems  []string          `json:"problems,omitempty"`
	Run       *RunObs           `json:"run,omitempty"`
	Counter   *RunObs           `json:"counterfactual_run,omitempty"`
}

type RunObs struct {
	Err      string              `json:"err,omitempty"`
	Panic    string              `json:"panic,omitempty"`
	Pkgs     map[string][]string `json:"packages"` // extractor -> sorted "name@version@loc"
	Statuses map[string]string   `json:"statuses"` // extractor -> enum
	Reasons  map[string]string   `json:"failure_reasons,omitempty"`
}

func buildExtractors(sc *Scenario, counterfactual bool) ([]filesystem.Extractor, error) {
	var out []filesystem.Extractor
	for _, n := range sc.Order {
		if n == "verif/failing" {
			f := &fakeFail{paths: map[string]bool{}, ok: counterfactual, partial: sc.Partial}
			for _, p := range sc.FakePaths {
				f.paths[p] = true
			}
			out = append(out, f)
			continue
		}
		e, err := list.ExtractorFromName(n)
		if err != nil {
			return nil, err
		}
		out = append(out, e)
	}
	return out, nil
}

func runOnce(sc *Scenario, counterfactual bool) *RunObs {
	obs := &RunObs{Pkgs: map[string][]string{}, Statuses: map[string]string{}, Reasons: map[string]string{}}
	dir, err := os.MkdirTemp("", "engineconf")
	if err != nil {
		obs.Err = "harness: " + err.Error()
		return obs
	}
	defer os.RemoveAll(dir)
	for p, content := range sc.Files {
		if counterfactual {
			if c2, ok := sc.Repaired[p]; ok {
				content = c2
			}
		}
		full := filepath.Join(dir, filepath.FromSlash(p))
		if err := os.MkdirAll(filepath.Dir(full), 0o755); err != nil {
			obs.Err = "harness: " + err.Error()
			return obs
		}
		if err := os.WriteFile(full, []byte(content), 0o644); err != nil {
			obs.Err = "harness: " + err.Error()
			return obs
		}
	}
	exts, err := buildExtractors(sc, counterfactual)
	if err != nil {
		obs.Err = "harness: " + err.Error()
		return obs
	}
	func() {
		defer func() {
			if r := recover(); r != nil {
				obs.Panic = fmt.Sprint(r)
			}
		}()
		inv, sts, err := filesystem.Run(context.Background(), &filesystem.Config{
			Extractors: exts, ScanRoots: []*scalibrfs.ScanRoot{{FS: scalibrfs.DirFS(dir), Path: dir}}, Stats: stats.NoopCollector{},
		})
		if err != nil {
			obs.Err = err.Error()
		}
		for _, p := range inv.Packages {
			n := "<nil>"
			if p.Extractor != nil {
				n = p.Extractor.Name()
			}
			obs.Pkgs[n] = append(obs.Pkgs[n], p.Name+"@"+p.Version+"@"+strings.Join(p.Locations, ","))
		}
		for _, st := range sts {
			switch st.Status.Status {
			case plugin.ScanStatusSucceeded:
				obs.Statuses[st.Name] = "succeeded"
			case plugin.ScanStatusPartiallySucceeded:
				obs.Statuses[st.Name] = "partial"
			case plugin.ScanStatusFailed:
				obs.Statuses[st.Name] = "failed"
			default:
				obs.Statuses[st.Name] = "unspecified"
			}
			if st.Status.FailureReason != "" {
				r := st.Status.FailureReason
				if len(r) > 200 {
					r = r[:200] + "..."
				}
				obs.Reasons[st.Name] = strings.ReplaceAll(r, dir, "<root>")
			}
		}
	}()
	for k := range obs.Pkgs {
		sort.Strings(obs.Pkgs[k])
	}
	return obs
}

func judge(sc *Scenario) {
	sc.Run = runOnce(sc, false)
	sc.Counter = runOnce(sc, true)
	var probs []string
	for _, o := range []*RunObs{sc.Run, sc.Counter} {
		if strings.HasPrefix(o.Err, "harness: ") {
			sc.Verdict = "harness-error"
			sc.Problems = []string{o.Err}
			return
		}
	}
	if sc.Run.Panic != "" {
		probs = append(probs, "the scan panicked: "+sc.Run.Panic)
	}
	if sc.Run.Err != "" {
		probs = append(probs, "the scan did not complete: "+sc.Run.Err)
	}
	failing := map[string]bool{}
	for _, f := range sc.Failing {
		failing[f] = true
		if st := sc.Run.Statuses[f]; st == "succeeded" || st == "" {
			probs = append(probs, fmt.Sprintf("%s failed on its file but its status is %q", f, st))
		}
	}
	if sc.Counter.Err != "" || sc.Counter.Panic != "" {
		probs = append(probs, "counterfactual run did not complete: "+sc.Counter.Err+sc.Counter.Panic)
	}
	for _, n := range sc.Order {
		if failing[n] {
			continue
		}
		a, b := strings.Join(sc.Run.Pkgs[n], "|"), strings.Join(sc.Counter.Pkgs[n], "|")
		if a != b {
			probs = append(probs, fmt.Sprintf("packages of %s differ from the counterfactual run: [%s] vs [%s]", n, a, b))
		}
		if sc.Run.Statuses[n] != sc.Counter.Statuses[n] {
			probs = append(probs, fmt.Sprintf("status of %s differs from the counterfactual run: %q vs %q", n, sc.Run.Statuses[n], sc.Counter.Statuses[n]))
		}
		if sc.Counter.Statuses[n] != "succeeded" {
			probs = append(probs, fmt.Sprintf("healthy extractor %s is %q even in the counterfactual run (%s)", n, sc.Counter.Statuses[n], sc.Counter.Reasons[n]))
		}
	}
	sc.Problems = probs
	if len(probs) > 0 {
		sc.Verdict = "violated"
	} else {
		sc.Verdict = "ok"
	}
}

func gen(r *rand.Rand, id int) *Scenario {
	sc := &Scenario{ID: id, Files: map[string]string{"etc/os-release": "ID=alpine\nVERSION_ID=3.18.0\n"}, Repaired: map[string]string{}}
	k := 3 + r.Intn(len(formats)-2)
	perm := r.Perm(len(formats))[:k]
	ncorrupt := 0
	if id%3 != 2 {
		ncorrupt = 1 + r.Intn(2)
	}
	for j, fi := range perm {
		f := formats[fi]
		sc.Order = append(sc.Order, f.Ext)
		if j < ncorrupt {
			sc.Files[f.Path] = f.Corrupt[r.Intn(len(f.Corrupt))]
			sc.Repaired[f.Path] = f.Healthy
			sc.Failing = append(sc.Failing, f.Ext)
		} else {
			sc.Files[f.Path] = f.Healthy
		}
	}
	r.Shuffle(len(sc.Order), func(i, j int) { sc.Order[i], sc.Order[j] = sc.Order[j], sc.Order[i] })
	if id%3 != 0 { // a second extractor wants the same (healthy) file as a real one and fails on it
		var healthyPaths []string
		for _, fi := range perm[ncorrupt:] {
			healthyPaths = append(healthyPaths, formats[fi].Path)
		}
		if len(healthyPaths) > 0 {
			r.Shuffle(len(healthyPaths), func(i, j int) { healthyPaths[i], healthyPaths[j] = healthyPaths[j], healthyPaths[i] })
			sc.FakePaths = healthyPaths[:1+r.Intn(len(healthyPaths))]
			sc.Partial = r.Intn(2) == 0
			pos := []int{0, 0, len(sc.Order) / 2, len(sc.Order)}[r.Intn(4)]
			sc.Order = append(sc.Order[:pos], append([]string{"verif/failing"}, sc.Order[pos:]...)...)
			sc.Failing = append(sc.Failing, "verif/failing")
		}
	}
	return sc
}

func main() {
	seed := flag.Int64("seed", 1, "PRNG seed")
	n := flag.Int("n", 30, "scenarios")
	out := flag.String("out", "", "output JSON")
	replay := flag.String("replay", "", "replay file: {\"scenario\": {...}}")
	flag.Parse()
	scalibrlog.SetLogger(quiet{})
	if *replay != "" {
		b, err := os.ReadFile(*replay)
		if err != nil {
			panic(err)
		}
		var w struct {
			Scenario *Scenario `json:"scenario"`
		}
		if err := json.Unmarshal(b, &w); err != nil || w.Scenario == nil {
			panic(fmt.Sprint("bad replay file ", err))
		}
		judge(w.Scenario)
		o, _ := json.MarshalIndent(w.Scenario, "", " ")
		fmt.Printf("implementation: %s\n%s\n", w.Scenario.Verdict, o)
		return
	}
	r := rand.New(rand.NewSource(*seed))
	var scs []*Scenario
	for i := 0; i < *n; i++ {
		sc := gen(r, i)
		judge(sc)
		scs = append(scs, sc)
	}
	res := map[string]any{"scenarios": scs}
	b, _ := json.Marshal(res)
	if *out != "" {
		if err := os.WriteFile(*out, b, 0o644); err != nil {
			panic(err)
		}
	}
	bad := 0
	for _, sc := range scs {
		if sc.Verdict != "ok" {
			bad++
		}
	}
	fmt.Printf("scenarios=%d not_ok=%d\n", len(scs), bad)
}

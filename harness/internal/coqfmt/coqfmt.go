// Package coqfmt prints Go values as Coq terms for generated cases files.
package coqfmt

import (
	"fmt"
	"strings"
)

// Bool prints a Coq bool.
func Bool(b bool) string {
	if b {
		return "true"
	}
	return "false"
}

// Z prints a Coq Z literal.
func Z(n int64) string {
	if n < 0 {
		return fmt.Sprintf("(%d)%%Z", n)
	}
	return fmt.Sprintf("%d%%Z", n)
}

// ZStr prints a decimal string (possibly huge) as a Coq Z literal.
func ZStr(s string) string {
	if strings.HasPrefix(s, "-") {
		return "(" + s + ")%Z"
	}
	return s + "%Z"
}

// N prints a Coq N literal.
func N(n uint64) string { return fmt.Sprintf("%d%%N", n) }

// Nat prints a Coq nat literal (keep small).
func Nat(n int) string { return fmt.Sprintf("%d%%nat", n) }

// List prints a Coq list from already printed elements.
func List(items []string) string {
	if len(items) == 0 {
		return "[]"
	}
	return "[" + strings.Join(items, "; ") + "]"
}

// Bytes prints a byte string as list N.
func Bytes(b []byte) string {
	items := make([]string, len(b))
	for i, c := range b {
		items[i] = fmt.Sprintf("%d", c)
	}
	if len(items) == 0 {
		return "(@nil N)"
	}
	return "[" + strings.Join(items, ";") + "]%N"
}

// Str is Bytes of a Go string.
func Str(s string) string { return Bytes([]byte(s)) }

// Option prints Some/None.
func Option(present bool, v string) string {
	if !present {
		return "None"
	}
	return "(Some " + v + ")"
}

// Chunked emits `Definition <name>_<k> : list <ty> := [...]` chunks and a final
// `Definition <name> := <name>_0 ++ <name>_1 ...` so that no single term is huge.
func Chunked(name, ty string, items []string, per int) string {
	var sb strings.Builder
	var parts []string
	for k := 0; k*per < len(items); k++ {
		hi := (k + 1) * per
		if hi > len(items) {
			hi = len(items)
		}
		part := fmt.Sprintf("%s_%d", name, k)
		parts = append(parts, part)
		fmt.Fprintf(&sb, "Definition %s : list %s :=\n [ %s ].\n", part, ty, strings.Join(items[k*per:hi], ";\n   "))
	}
	if len(parts) == 0 {
		fmt.Fprintf(&sb, "Definition %s : list %s := [].\n", name, ty)
	} else {
		fmt.Fprintf(&sb, "Definition %s : list %s := %s.\n", name, ty, strings.Join(parts, " ++ "))
	}
	return sb.String()
}

module verifharness

go 1.24.0

require (
	deps.dev/util/resolve v0.0.0-20250310223405-f4cf91c9e684
	deps.dev/util/semver v0.0.0-20250307021655-d811e36f9cad
	github.com/BurntSushi/toml v1.3.2
	github.com/CycloneDX/cyclonedx-go v0.9.0
	github.com/go-git/go-git/v5 v5.14.0
	github.com/gobwas/glob v0.2.3
	github.com/google/go-containerregistry v0.19.1
	github.com/google/osv-scalibr v0.0.0
	github.com/ossf/osv-schema/bindings/go v0.0.0-20250210065807-ab8a4f6e6389
	github.com/package-url/packageurl-go v0.1.2
	github.com/spdx/tools-golang v0.5.3
	golang.org/x/mod v0.21.0
	gopkg.in/yaml.v3 v3.0.1
)

require (
	deps.dev/api/v3 v3.0.0-20250307021655-d811e36f9cad // indirect
	deps.dev/util/maven v0.0.0-20250307021655-d811e36f9cad // indirect
	deps.dev/util/pypi v0.0.0-20250307021655-d811e36f9cad // indirect
	github.com/GehirnInc/crypt v0.0.0-20230320061759-8cc1b52080c5 // indirect
	github.com/anchore/go-struct-converter v0.0.0-20230627203149-c72ef8859ca9 // indirect
	github.com/containerd/containerd v1.7.27 // indirect
	github.com/containerd/containerd/api v1.8.0 // indirect
	github.com/containerd/continuity v0.4.4 // indirect
	github.com/containerd/errdefs v0.3.0 // indirect
	github.com/containerd/fifo v1.1.0 // indirect
	github.com/containerd/log v0.1.0 // indirect
	github.com/containerd/platforms v0.2.1 // indirect
	github.com/containerd/stargz-snapshotter/estargz v0.15.1 // indirect
	github.com/containerd/ttrpc v1.2.7 // indirect
	github.com/containerd/typeurl/v2 v2.1.1 // indirect
	github.com/davecgh/go-spew v1.1.1 // indirect
	github.com/deitch/magic v0.0.0-20240306090643-c67ab88f10cb // indirect
	github.com/distribution/reference v0.6.0 // indirect
	github.com/docker/cli v25.0.3+incompatible // indirect
	github.com/docker/distribution v2.8.3+incompatible // indirect
	github.com/docker/docker v25.0.6+incompatible // indirect
	github.com/docker/docker-credential-helpers v0.8.1 // indirect
	github.com/docker/go-events v0.0.0-20190806004212-e31b211e4f1c // indirect
	github.com/edsrzf/mmap-go v1.1.0 // indirect
	github.com/erikvarga/go-rpmdb v0.0.0-20240208180226-b97e041ef9af // indirect
	github.com/felixge/httpsnoop v1.0.3 // indirect
	github.com/go-git/gcfg v1.5.1-0.20230307220236-3a3c6141e376 // indirect
	github.com/go-git/go-billy/v5 v5.6.2 // indirect
	github.com/go-logr/logr v1.4.2 // indirect
	github.com/go-logr/stdr v1.2.2 // indirect
	github.com/gogo/protobuf v1.3.2 // indirect
	github.com/google/go-cmp v0.7.0 // indirect
	github.com/google/uuid v1.6.0 // indirect
	github.com/groob/plist v0.1.1 // indirect
	github.com/jbenet/go-context v0.0.0-20150711004518-d14ea06fba99 // indirect
	github.com/klauspost/compress v1.17.7 // indirect
	github.com/mattn/go-sqlite3 v1.14.22 // indirect
	github.com/michaelkedar/xml v0.0.0-20250310223042-5d14c9302b17 // indirect
	github.com/mitchellh/go-homedir v1.1.0 // indirect
	github.com/moby/locker v1.0.1 // indirect
	github.com/moby/sys/mountinfo v0.6.2 // indirect
	github.com/moby/sys/signal v0.7.0 // indirect
	github.com/moby/sys/user v0.3.0 // indirect
	github.com/moby/sys/userns v0.1.0 // indirect
	github.com/opencontainers/go-digest v1.0.0 // indirect
	github.com/opencontainers/image-spec v1.1.0 // indirect
	github.com/opencontainers/runtime-spec v1.1.0 // indirect
	github.com/opencontainers/selinux v1.11.0 // indirect
	github.com/pandatix/go-cvss v0.6.2 // indirect
	github.com/pkg/errors v0.9.1 // indirect
	github.com/rust-secure-code/go-rustaudit v0.0.0-20250226111315-e20ec32e963c // indirect
	github.com/saferwall/pe v1.5.6 // indirect
	github.com/secDre4mer/pkcs7 v0.0.0-20240322103146-665324a4461d // indirect
	github.com/sirupsen/logrus v1.9.3 // indirect
	github.com/spdx/gordf v0.0.0-20221230105357-b735bd5aac89 // indirect
	github.com/tidwall/gjson v1.18.0 // indirect
	github.com/tidwall/jsonc v0.3.2 // indirect
	github.com/tidwall/match v1.1.1 // indirect
	github.com/tidwall/pretty v1.2.0 // indirect
	github.com/tidwall/sjson v1.2.5 // indirect
	github.com/vbatts/tar-split v0.11.5 // indirect
	go.etcd.io/bbolt v1.3.10 // indirect
	go.opentelemetry.io/contrib/instrumentation/net/http/otelhttp v0.45.0 // indirect
	go.opentelemetry.io/otel v1.32.0 // indirect
	go.opentelemetry.io/otel/metric v1.32.0 // indirect
	go.opentelemetry.io/otel/trace v1.32.0 // indirect
	go.uber.org/multierr v1.11.0 // indirect
	golang.org/x/crypto v0.35.0 // indirect
	golang.org/x/exp v0.0.0-20240719175910-8a7402abbf56 // indirect
	golang.org/x/net v0.36.0 // indirect
	golang.org/x/sync v0.11.0 // indirect
	golang.org/x/sys v0.30.0 // indirect
	golang.org/x/text v0.22.0 // indirect
	golang.org/x/tools v0.26.0 // indirect
	golang.org/x/vuln v1.0.4 // indirect
	golang.org/x/xerrors v0.0.0-20231012003039-104605ab7028 // indirect
	google.golang.org/genproto v0.0.0-20240123012728-ef4313101c80 // indirect
	google.golang.org/genproto/googleapis/api v0.0.0-20241202173237-19429a94021a // indirect
	google.golang.org/genproto/googleapis/rpc v0.0.0-20241202173237-19429a94021a // indirect
	google.golang.org/grpc v1.70.0 // indirect
	google.golang.org/protobuf v1.36.5 // indirect
	gopkg.in/ini.v1 v1.67.0 // indirect
	gopkg.in/warnings.v0 v0.1.2 // indirect
	sigs.k8s.io/yaml v1.4.0 // indirect
	www.velocidex.com/golang/regparser v0.0.0-20240404115756-2169ac0e3c09 // indirect
)

replace github.com/google/osv-scalibr => /repo

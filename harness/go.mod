module verifharness

go 1.24.0

require (
	deps.dev/util/resolve v0.0.0-20250310223405-f4cf91c9e684
	deps.dev/util/semver v0.0.0-20250307021655-d811e36f9cad
	github.com/google/osv-scalibr v0.0.0
	github.com/ossf/osv-schema/bindings/go v0.0.0-20250210065807-ab8a4f6e6389
)

require (
	deps.dev/api/v3 v3.0.0-20250307021655-d811e36f9cad // indirect
	deps.dev/util/maven v0.0.0-20250307021655-d811e36f9cad // indirect
	deps.dev/util/pypi v0.0.0-20250307021655-d811e36f9cad // indirect
	github.com/go-git/gcfg v1.5.1-0.20230307220236-3a3c6141e376 // indirect
	github.com/go-git/go-billy/v5 v5.6.2 // indirect
	github.com/go-git/go-git/v5 v5.14.0 // indirect
	github.com/gobwas/glob v0.2.3 // indirect
	github.com/jbenet/go-context v0.0.0-20150711004518-d14ea06fba99 // indirect
	github.com/michaelkedar/xml v0.0.0-20250310223042-5d14c9302b17 // indirect
	github.com/package-url/packageurl-go v0.1.2 // indirect
	github.com/pandatix/go-cvss v0.6.2 // indirect
	github.com/tidwall/gjson v1.18.0 // indirect
	github.com/tidwall/match v1.1.1 // indirect
	github.com/tidwall/pretty v1.2.0 // indirect
	github.com/tidwall/sjson v1.2.5 // indirect
	golang.org/x/net v0.36.0 // indirect
	golang.org/x/sys v0.30.0 // indirect
	golang.org/x/text v0.22.0 // indirect
	google.golang.org/genproto/googleapis/api v0.0.0-20241202173237-19429a94021a // indirect
	google.golang.org/genproto/googleapis/rpc v0.0.0-20241202173237-19429a94021a // indirect
	google.golang.org/grpc v1.70.0 // indirect
	google.golang.org/protobuf v1.36.5 // indirect
	gopkg.in/ini.v1 v1.67.0 // indirect
	gopkg.in/warnings.v0 v0.1.2 // indirect
)

replace github.com/google/osv-scalibr => /repo

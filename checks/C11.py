"""C11 - guided remediation only upgrades, and only as far as the policy allows."""
import json
import os
import re
from concurrent.futures import ThreadPoolExecutor

import vlib

LEVEL = "proof"
AREA = "RemedC11"
PROPS = AREA + "/Props_C11.v"
COQ_FILES = ["Lib/SortSearch.v"] + [AREA + "/" + f for f in
             ("Upgrade.v", "Suggest.v", "Relax.v", "Override.v", "RelaxLoop.v", "Cases.v", "Proofs.v", "Props_C11.v")]
KNOWN_FILE = os.path.join(vlib.VERIF, "KNOWN_FINDINGS.d", "C11.json")

# Coq record type of a stream -> (what it ties, theorems that speak about it)
STREAMS = {
    "acase": ("upgrade.Level.Allows vs Upgrade.allows", ["allows_eq_spec", "allows_compose"]),
    "gcase": ("upgrade.Config.Get vs Upgrade.config_get", ["config_get_correct"]),
    "pcase": ("upgrade.NewConfigFromStrings + Config.Get vs Upgrade.config_parse / sconfig_get", ["config_parse_correct"]),
    "scase": ("suggest.suggestMavenVersion vs Suggest.suggest_maven_version",
              ["suggest_within_level", "suggest_not_downgrade", "suggest_strictly_up", "suggest_no_panic"]),
    "qcase": ("MavenSuggester.Suggest / guidedremediation.Update vs Suggest.suggest_all", ["suggest_none_untouched"]),
    "rcase": ("relaxer.NpmRelaxer.Relax vs Relax.relax_npm",
              ["relax_none_untouched", "relax_strictly_up", "relax_level_checked", "relax_range_within_level"]),
    "xcase": ("relax.patchVulns vs RelaxLoop.run_relax",
              ["relax_only_touches_responsible_directs", "relax_terminates"]),
    "vcase": ("override.getVersionsGreater vs Override.get_versions_greater",
              ["override_strictly_up", "sort_unique_on_distinct"]),
    "ocase": ("override.patchVulns vs Override.patch_vulns",
              ["override_strictly_up", "override_within_level", "override_within_level_of_original",
               "override_none_untouched", "override_terminates", "override_resolved_version_refuted"]),
    "ucase": ("PackageUpdates of guidedremediation.FixVulns / Update, judged on re-resolved graphs",
              ["override_strictly_up", "override_within_level", "relax_strictly_up", "suggest_within_level"]),
}
THEOREMS = sorted({t for _, ts in STREAMS.values() for t in ts})

META = {
    "technique": "Coq proofs about executable models of Level.Allows/Config.Get, suggestMavenVersion, NpmRelaxer.Relax and "
                 "override.patchVulns/getVersionsGreater + vm_compute trace correspondence against the real strategies run on "
                 "generated offline deps.dev universes + result oracle on FixVulns/Update output",
    "level_text": "Theorems (Props_C11.v): allows_eq_spec/allows_compose (level semantics, composition of allowed steps); "
                  "override_strictly_up / override_within_level / override_within_level_of_original / override_none_untouched / "
                  "override_terminates (every resolver) for the model of override.patchVulns; sort_unique_on_distinct (the sorted "
                  "version list is independent of the sorting algorithm, no 12-element bound); relax_none_untouched / "
                  "relax_strictly_up / relax_level_checked / relax_range_within_level (every valid level, measured from the version "
                  "the requirement resolves to) for the model of NpmRelaxer.Relax; relax_only_touches_responsible_directs / "
                  "relax_terminates (measure: position of the highest matching version per direct requirement) for the model of "
                  "relax.patchVulns; suggest_within_level / suggest_none_untouched / suggest_strictly_up / suggest_no_panic for "
                  "the model of suggestMavenVersion and MavenSuggester.Suggest. Six defects were repaired in /repo (fix commits "
                  "e6d56740, 81d44206, 37eca69c, 7f88acb2, c3af8db4, 592534ae) and their witnesses run first on every run; still refuted at "
                  "full strength: override_resolved_version_refuted (a package need not resolve to the override asked for; "
                  "combined patches can pull it down). The models are tied to the code on every run by evaluating them "
                  "with vm_compute on the oracle answers recorded while the real functions ran.",
    "level_note": "Trusted: Coq kernel + vm_compute; Go harness harness/cmd/remed; hooks guidedremediation/verif_export_c11.go "
                  "(+ override/relax/suggest verif_export_c11.go); deps.dev resolve/semver (Compare total preorder, Difference "
                  "= first differing component: validated per universe), the resolvers and the manifest readers are oracles. "
                  "Partial: common.ComputePatches / choosePatches are exercised end-to-end (and emulated call by call), not modelled.",
    "design_ref": "DESIGN.md section 5 C11",
}

TIERS = {
    "quick": ["-configs", "150", "-suggest", "700", "-update", "50", "-relax", "700", "-gvg", "250",
              "-fixnpm", "60", "-fixmaven", "60"],
    "thorough": ["-configs", "1500", "-suggest", "12000", "-update", "900", "-relax", "12000", "-gvg", "4000",
                 "-fixnpm", "900", "-fixmaven", "900"],
}


def describe(c):
    return c


def load_known(ctx):
    return ctx.known_findings()


def shard_and_run(ctx, vfile):
    """Split the chunk definitions of the cases file over parallel coqc processes.
    Returns {stream: {"corr": [...], "spec": [...], "offd": [...], "prop": [...], "n": int}} with global indices."""
    txt = open(vfile).read()
    header = txt[:txt.index("(* END-HEADER *)")]
    chunks = re.findall(r"(Definition ((k_)?(\w+?)s_(\d+)) : list (\w+) :=\n.*?\]\.\n)", txt, re.S)
    jobs = []
    for body, name, isk, stem, k, ty in chunks:
        jobs.append((("k_" if isk else "") + ty, int(k), name, ty, body))

    def one(job):
        stream, k, name, ty, body = job
        v = header + body + "".join(
            "Definition %s := Eval vm_compute in bad_indices %s_%s %s 0.\nPrint %s.\n" % (out, ty, fn, name, out)
            for out, fn in (("corr_bad", "model_ok"), ("spec_bad", "spec_ok"), ("offd_idx", "dom"), ("prop_bad", "prop_ok")))
        v += "Definition n_cases := Eval vm_compute in [length %s].\nPrint n_cases.\n" % name
        rc, out = ctx.run_cases("C11_%s_%d" % (stream, k), v, timeout=1500)
        res = {}
        for key in ("corr_bad", "spec_bad", "offd_idx", "prop_bad", "n_cases"):
            res[key] = vlib.parse_printed_list(out, key)
        if rc != 0 or any(x is None for x in res.values()):
            raise RuntimeError("cases shard %s/%d failed: %s" % (stream, k, out[-2500:]))
        return stream, k, res

    per = None
    acc = {}
    with ThreadPoolExecutor(max_workers=14) as ex:
        results = list(ex.map(one, jobs))
    # chunk size = number of cases in chunk 0 of any stream with more than one chunk; use declared order
    sizes = {}
    for stream, k, res in results:
        sizes.setdefault(stream, {})[k] = res["n_cases"][0]
    for stream, k, res in sorted(results, key=lambda x: (x[0], x[1])):
        base = sum(sizes[stream][j] for j in range(k))
        a = acc.setdefault(stream, {"corr": [], "spec": [], "offd": [], "prop": [], "n": 0})
        a["corr"] += [base + i for i in res["corr_bad"]]
        a["spec"] += [base + i for i in res["spec_bad"]]
        a["offd"] += [base + i for i in res["offd_idx"]]
        a["prop"] += [base + i for i in res["prop_bad"]]
        a["n"] += res["n_cases"][0]
    return acc


def nontrivial(stream, c):
    """DESIGN section 14: the universe yields >= 1 vulnerability and >= 1 candidate patch (for the
    direct streams: the function had >= 1 candidate version to consider)."""
    return bool(c.get("nontrivial"))


def run(ctx):
    bad = ctx.gate(COQ_FILES)
    if bad:
        ctx.violation({"kind": "gate", "hits": bad}, nofail=True)
    pa = ctx.prove(PROPS, clean=([f for f in COQ_FILES if f.startswith(AREA)] if ctx.tier == "thorough" else False))
    ctx.log("proof ok=%s obligations=%d closed=%d" % (pa["ok"], pa["obligations"], pa["print_assumptions_closed"]))
    vlib.proof_coverage(ctx, pa)
    if ctx.tier == "thorough" and pa["ok"]:
        chk = ctx.coqchk(["Scalibr.RemedC11.Props_C11"])
        ctx.coverage["coqchk"] = chk
        if chk["rc"] != 0:
            ctx.violation({"kind": "coqchk-failed", "output": chk["output_tail"], "theorems": THEOREMS}, nofail=True)
    rc, out = ctx.coq_make(["theories/%s/Cases.vo" % AREA])   # evaluation layer of the cases files
    if rc != 0:
        raise RuntimeError("Cases.vo does not build: " + out[-2000:])
    tb_extra = [
        "Go harness harness/cmd/remed (universe/manifest/OSV generators, interning of names and version strings, ranks by "
        "deps.dev Compare, recording of oracle answers, re-resolution for the result oracle)",
        "hooks /repo/guidedremediation/verif_export_c11.go, internal/strategy/override/verif_export_c11.go, "
        "internal/strategy/relax/verif_export_c11.go, internal/suggest/verif_export_c11.go, guidedremediation/verif_export.go",
        "oracles (modelled, not verified): deps.dev resolve (npm/Maven resolvers, LocalClient, MatchRequirement), deps.dev semver "
        "(Parse, ParseConstraint, MatchVersion, Compare, Difference, IsPrerelease), manifest readers/writers, vulns.IsAffected (C18)",
        "not modelled (exercised end-to-end only): common.ComputePatches, choosePatches; ConstrainingSubgraph is an oracle",
    ]
    binp, out = ctx.harness_build("remed")
    if binp is None:
        ctx.violation({"kind": "harness-build-failed", "log": out[-3000:],
                       "correspondence": "guided remediation strategies vs RemedC11 models",
                       "theorems_no_longer_tied_to_code": THEOREMS}, nofail=True)
        ctx.coverage["trusted_base"] = vlib.std_trusted_base(pa, tb_extra)
        return
    d = os.path.join(vlib.BUILD, "cases")
    os.makedirs(d, exist_ok=True)
    vfile = os.path.join(d, "C11_cases.v")
    side = os.path.join(d, "C11_cases.jsonl")
    args = [binp, "-out", vfile, "-jsonl", side, "-seed", str(ctx.seed)] + TIERS[ctx.tier]
    if os.path.exists(KNOWN_FILE):
        args += ["-known", KNOWN_FILE]
    rc, out = vlib.sh(args, timeout=3000)
    if rc != 0:
        raise RuntimeError("harness failed: " + out[-3000:])
    ctx.log("harness: " + " | ".join(l for l in out.splitlines() if l.startswith("stream ")))
    meta = {}
    cases = {}
    for line in open(side):
        o = json.loads(line)
        if o["stream"] == "meta":
            meta = o["meta"]
        else:
            cases.setdefault(o["stream"], []).append(o["case"])
    res = shard_and_run(ctx, vfile)
    decide(ctx, pa, cases, res, meta)
    evidence(ctx, pa, cases, res, meta, tb_extra)


def decide(ctx, pa, cases, res, meta):
    known = load_known(ctx)
    # ---- known findings: each witness was replayed on the implementation by the harness (streams k_<type>);
    # one witness can yield several cases (an end-to-end run): the finding stands while some case still violates
    # the property outside the domain D and the model agrees with the implementation on all of them
    kcases = {s[2:]: cs for s, cs in cases.items() if s.startswith("k_")}
    for entry in known:
        hits, stale = [], []
        for ty, cs in kcases.items():
            r = res["k_" + ty]
            for i, c in enumerate(cs):
                if c.get("known_id") != entry["id"]:
                    continue
                still_fails = i in r["prop"]
                model_agrees = i not in r["corr"]
                outside_d = i in r["offd"]
                if not model_agrees:
                    stale.append({"stream": ty, "case": c, "why": "model and implementation disagree on the witness"})
                elif still_fails and outside_d:
                    hits.append(ty)
                elif still_fails and not outside_d:
                    stale.append({"stream": ty, "case": c, "why": "the witness fails inside the claimed domain D"})
        if hits and not stale:
            ctx.print_known(entry)
        else:
            ctx.violation({"kind": "known-finding-stale", "entry": entry["id"], "stale_theorem": entry.get("refuted_theorem"),
                           "details": stale[:3], "replayed_cases_still_failing": len(hits),
                           "explanation": "the listed witness no longer behaves as the refuted theorem says (implementation "
                                          "changed or the model drifted); the tie between theorem and code is broken"},
                          nofail=True)
    # ---- hypotheses validated by the harness
    hv = meta.get("hypotheses", {})
    for name, h in hv.items():
        # the two resolver premises are part of the domain D of override_terminates (a universe where they fail is
        # outside D and counted there); the premise about deps.dev Difference is expected to hold everywhere
        if name == "difference_reports_first_differing_component" and h.get("failed", 0):
            ctx.violation({"kind": "hypothesis-invalidated", "hypothesis": name, "detail": h,
                           "explanation": "a premise of the Coq theorems about third-party code failed on a generated universe"},
                          nofail=True)
    # ---- generated cases
    spec_total = 0
    for ty in STREAMS:
        if ty not in cases:
            continue
        r = res[ty]
        cs = cases[ty]
        for i in r["spec"][:3]:
            spec_total += 1
            ctx.violation({"kind": "spec-failure", "stream": ty, "tie": STREAMS[ty][0], "case": cs[i], "case_index": i,
                           "explanation": "the implementation's observed behaviour violates the property (Coq spec evaluated by "
                                          "vm_compute on this input, inside the claimed domain)"})
    if spec_total:
        return
    if not pa["ok"]:
        ctx.violation({"kind": "proof-broken", "theorems": THEOREMS, "props_file": pa["props_file"], "log_tail": pa["log_tail"],
                       "explanation": "the Coq development no longer compiles; no failing input found by this run"}, nofail=True)
    for ty in STREAMS:
        if ty not in cases:
            continue
        r = res[ty]
        if r["corr"]:
            i = r["corr"][0]
            ctx.violation({"kind": "correspondence-broken", "stream": ty, "correspondence": STREAMS[ty][0],
                           "theorems_no_longer_tied_to_code": STREAMS[ty][1], "first_mismatch": cases[ty][i],
                           "mismatches": len(r["corr"]),
                           "explanation": "model and implementation disagree on this input, so the theorems no longer speak "
                                          "about the code; the spec oracle found no input on which the property itself fails"},
                          nofail=True)


def evidence(ctx, pa, cases, res, meta, tb_extra):
    evals = 0
    seen = set()
    dist = {}
    samples = []
    for ty in STREAMS:
        cs = cases.get(ty, [])
        r = res.get(ty, {"offd": [], "n": 0})
        evals += len(cs)
        nt = 0
        for c in cs:
            if nontrivial(ty, c):
                h = vlib.sha([ty, {k: v for k, v in c.items() if k not in ("observed", "nontrivial")}])
                if h not in seen:
                    seen.add(h)
                    nt += 1
        dist[ty] = {"cases": len(cs), "distinct_nontrivial": nt, "outside_domain_D": len(r["offd"]),
                    "property_fails_outside_D": len([i for i in r.get("prop", []) if i in set(r["offd"])])}
        if cs:
            samples.append({"stream": ty, "case": cs[len(cs) // 2]})
    ctx.coverage.update({
        "evaluations": evals,
        "distinct_nontrivial": len(seen),
        "rule": "a case is one call of the real code with its recorded oracle answers (direct streams) or one PackageUpdate of a "
                "FixVulns/Update run judged on re-resolved graphs (ucase); distinct by SHA-256 of the canonical input; "
                "non-trivial (DESIGN section 14) when the universe yields >= 1 vulnerability and >= 1 candidate patch, i.e. the "
                "function under test had at least one candidate version to consider (allows/config: every case, the 4x7 "
                "Allows table is exhaustive)",
        "samples": samples[:6],
        "exhaustive": False,
        "input_distribution": {"streams": dist, "generator": meta.get("distribution", {})},
        # a call that missed the watchdog limit but returned within 10x the limit (starved machine): not a verdict
        "load_induced_timeouts": (meta.get("distribution", {}).get("watchdog") or {}).get("load_induced_timeouts", 0),
        "confirmed_timeouts": (meta.get("distribution", {}).get("watchdog") or {}).get("confirmed_timeouts", 0),
        "hypotheses_validated": meta.get("hypotheses", {}),
        "vm_compute_cases": evals,
        "explanation": "Level.Allows is checked exhaustively (levels incl. an invalid one x 7 Diff values); all other streams "
                       "are generated from one PRNG seed",
    })
    ctx.coverage["trusted_base"] = vlib.std_trusted_base(pa, tb_extra)
    ctx.assumptions += [
        "deps.dev Compare is a total preorder on each package's version strings (ranks; checked per case, inconsistent cases are "
        "excluded from the oracle and counted)",
        "deps.dev Difference reports the first differing component of (major, minor, patch, rest) (premise of allows_compose; "
        "validated on every generated package)",
        "an overridden Maven package resolves to the overriding version and a resolved graph has one version per package "
        "(premises of override_terminates; validated on every traced re-resolution)",
        "slices.SortFunc returns a sorted permutation: on version lists without equal keys that list is unique "
        "(sort_unique_on_distinct), packages with up to 30 versions are generated; lists WITH equal keys or unparsable "
        "entries are generated with <= 12 elements only, where slices.SortFunc is insertion sort (the model's go_sort)",
    ]


def replay(ctx, path):
    """Re-run one recorded case (a replays/C11-*.json file, or a KNOWN_FINDINGS.d witness wrapped the same way) through
    implementation, model and spec and print the three results for every case it yields."""
    binp, out = ctx.harness_build("remed")
    if binp is None:
        print(out)
        return 2
    rc, out = vlib.sh([binp, "-replay", path], timeout=600)
    print("\n".join(l for l in out.splitlines() if not l.startswith("coq-case: ")))
    terms = re.findall(r"^coq-case: (\w+) (.*)$", out, re.M)
    if not terms:
        return 0
    v = ("From Coq Require Import List ZArith NArith Bool.\n"
         "From Scalibr Require Import RemedC11.Upgrade RemedC11.Suggest RemedC11.Relax RemedC11.Override RemedC11.RelaxLoop RemedC11.Cases.\n"
         "Import ListNotations.\nOpen Scope N_scope.\n")
    for i, (ty, term) in enumerate(terms):
        ty = ty[2:] if ty.startswith("k_") else ty
        v += ("Definition c%d : %s := %s.\n"
              "Definition case_%d_%s_model_agrees_in_domain_property_holds := Eval vm_compute in "
              "(%s_model_ok c%d, %s_dom c%d, %s_prop_ok c%d).\nPrint case_%d_%s_model_agrees_in_domain_property_holds.\n"
              % (i, ty, term, i, ty, ty, i, ty, i, ty, i, i, ty))
    rc, out = ctx.run_cases("C11_replay", v)
    print(out)
    return 0

"""C18 - affected-version decisions follow the OSV range rules."""
import json
import os
import vlib

LEVEL = "proof"
PROPS = "Remed/Props_C18.v"
COQ_FILES = ["Lib/SortSearch.v", "Remed/Vulns.v", "Remed/VulnsProofs.v", "Remed/VulnsMore.v", "Remed/Props_C18.v"]
THEOREMS = ["is_affected_eq_spec", "range_decision_on_any_ordering", "range_decision_eq_declarative", "other_package_never_matches",
            "unknown_ecosystem_never_matches", "listed_version_matches"]

META = {
    "technique": "Coq proof (bsearch/insertion-sort refinement to the OSV linear evaluation) + vm_compute correspondence against vulns.IsAffected",
    "level_text": "Theorem is_affected_eq_spec: for every record whose ranges are well-formed (any number of entries, "
                  "ranges, events, any listing order) the model of vulns.IsAffected equals the OSV specification's "
                  "evaluation; the model is tied to the code on every run by evaluating it with vm_compute on the "
                  "records the real IsAffected was run on (exhaustive well-formed lists up to 3 events in quick / 5 in "
                  "thorough, over a 6-version candidate set per ecosystem, every listing permutation, 12 queried versions). "
                  "Corollaries proved for all inputs (Remed/VulnsMore.v): the decision and well-formedness are invariant under "
                  "any permutation of a range's events, of an entry's ranges and of the record's entries; the boundary rules in "
                  "closed form for all ranks a<b ([introduced a, fixed b] = a<=v<b; [introduced a, last_affected b] = a<=v<=b; "
                  "[introduced 0, fixed b] = v<b; [introduced a] = a<=v); a record is the disjunction of its entries "
                  "(is_affected (v1++v2) = is_affected v1 || is_affected v2) and a super-record never loses a match.",
    "level_note": "Trusted: Coq kernel + vm_compute; the Go harness (rank assignment by deps.dev semver Compare, which is "
                  "treated as a total preorder oracle); versions are abstracted to ranks; hook guidedremediation/verif_export.go.",
    "design_ref": "DESIGN.md section 5 C18",
}


def describe(c):
    return c


def run(ctx):
    bad = ctx.gate(COQ_FILES)
    if bad:
        ctx.violation({"kind": "gate", "hits": bad}, nofail=True)
    pa = ctx.prove(PROPS, clean=(COQ_FILES if ctx.tier == "thorough" else False))
    ctx.log("proof ok=%s obligations=%d closed=%d" % (pa["ok"], pa["obligations"], pa["print_assumptions_closed"]))
    vlib.proof_coverage(ctx, pa)
    if ctx.tier == "thorough" and pa["ok"]:
        ctx.coqchk(["Scalibr.Remed.Props_C18"])
    binp, out = ctx.harness_build("vulns")
    if binp is None:
        ctx.violation({"kind": "harness-build-failed", "log": out[-3000:],
                       "correspondence": "vulns.IsAffected vs Remed.Vulns.is_affected",
                       "theorems_no_longer_tied_to_code": THEOREMS}, nofail=True)
        ctx.coverage["trusted_base"] = vlib.std_trusted_base(pa)
        return
    d = os.path.join(vlib.BUILD, "cases")
    os.makedirs(d, exist_ok=True)
    vfile = os.path.join(d, "C18_cases.v")
    side = os.path.join(d, "C18_cases.jsonl")
    if ctx.tier == "thorough":
        args = ["-maxfull", "5", "-maxlen", "5", "-sample", "0", "-random", "3000", "-ill", "2000"]
    else:
        args = ["-maxfull", "3", "-maxlen", "5", "-sample", "250", "-random", "200", "-ill", "150"]
    rc, out = vlib.sh([binp, "-out", vfile, "-jsonl", side, "-seed", str(ctx.seed)] + args, timeout=600)
    if rc != 0:
        raise RuntimeError("harness failed: " + out[-2000:])
    cases = [json.loads(l) for l in open(side)]
    ctx.log("harness ran %d cases" % len(cases))
    # shard the Coq evaluation
    shards = shard_and_run(ctx, vfile, len(cases))
    corr_bad, spec_bad, wf_count = shards
    ctx.log("corr_bad=%d spec_bad=%d wf=%d" % (len(corr_bad), len(spec_bad), wf_count))
    # evidence
    evals = sum(len(c["queries"]) for c in cases)
    seen = set()
    streams = {}
    lens = {}
    for c in cases:
        streams[c["stream"]] = streams.get(c["stream"], 0) + 1
        nontriv = any(len(r["events"]) >= 2 for a in c["affected"] if a["name"] == c["qname"] and a["eco"] == c["eco"]
                      for r in (a.get("ranges") or []))
        for a in c["affected"]:
            for r in (a.get("ranges") or []):
                lens[len(r["events"])] = lens.get(len(r["events"]), 0) + 1
        if nontriv:
            seen.add(vlib.sha([c["eco"], c["affected"], c["queries"]]))
    ctx.coverage.update({
        "evaluations": evals,
        "distinct_nontrivial": len(seen),
        "rule": "a case is one OSV record + 12..16 queried versions run through the real IsAffected; distinct by SHA-256 of "
                "(ecosystem, record, queries); non-trivial when some range for the queried package has >= 2 events",
        "samples": [cases[i] for i in (0, len(cases) // 3, len(cases) // 2, len(cases) - 1)],
        "exhaustive": False,
        "input_distribution": {"streams": streams, "events_per_range": {str(k): v for k, v in sorted(lens.items())}},
        "well_formed_cases_checked_against_spec": wf_count,
        "vm_compute_cases": len(cases),
        "explanation": "all well-formed event lists with <= %s events over 6 candidate versions (incl. the literal 0) x every "
                       "listing permutation are enumerated completely; longer lists are sampled" % ("5" if ctx.tier == "thorough" else "3"),
    })
    ctx.coverage["trusted_base"] = vlib.std_trusted_base(pa, [
        "Go harness harness/cmd/vulns (ranks of version strings computed with deps.dev semver Compare; string ids)",
        "hook /repo/guidedremediation/verif_export.go (VerifIsAffected, VerifVKToPackage)",
        "modelled, not verified: deps.dev semver parsing/comparison (oracle for the order), osvschema decoding"])
    ctx.assumptions += ["deps.dev Compare is a total preorder on the version universe of each case (ranks)",
                        "slices.SortFunc on <= 12 elements is insertion sort (stable); for well-formed ranges the order is unique anyway (isort_unique)"]
    vlib.standard_decide(ctx, pa, corr_bad, spec_bad, cases, describe, THEOREMS,
                         "vulns.IsAffected (Go) vs Remed.Vulns.is_affected (Coq, vm_compute)")


def shard_and_run(ctx, vfile, n):
    """The harness wrote one big file; split its chunk definitions across several coqc processes."""
    import re
    from concurrent.futures import ThreadPoolExecutor
    txt = open(vfile).read()
    header = txt[:txt.index("Definition cases_0")] if "Definition cases_0" in txt else None
    if header is None:
        rc, out = ctx.run_cases("C18_all", txt)
        return vlib.parse_printed_list(out, "corr_bad"), vlib.parse_printed_list(out, "spec_bad"), 0
    chunks = re.findall(r"(Definition (cases_\d+) : list vcase :=\n.*?\]\.\n)", txt, re.S)
    per = 250

    def one(k):
        body, name = chunks[k]
        v = header + body + (
            "Definition corr_bad := Eval vm_compute in bad_indices case_model_ok %s 0.\nPrint corr_bad.\n"
            "Definition spec_bad := Eval vm_compute in bad_indices case_spec_ok %s 0.\nPrint spec_bad.\n"
            "Definition wf_count := Eval vm_compute in [length (filter (fun c => wf_vuln (c_vuln c)) %s)].\nPrint wf_count.\n"
            % (name, name, name))
        rc, out = ctx.run_cases("C18_shard_%d" % k, v)
        cb = vlib.parse_printed_list(out, "corr_bad")
        sb = vlib.parse_printed_list(out, "spec_bad")
        wf = vlib.parse_printed_list(out, "wf_count")
        if rc != 0 or cb is None or sb is None or wf is None:
            raise RuntimeError("cases shard %d failed: %s" % (k, out[-1500:]))
        return [k * per + i for i in cb], [k * per + i for i in sb], wf[0]

    corr, spec, wf = [], [], 0
    with ThreadPoolExecutor(max_workers=14) as ex:
        for cb, sb, w in ex.map(one, range(len(chunks))):
            corr += cb
            spec += sb
            wf += w
    return corr, spec, wf


def replay(ctx, path):
    binp, out = ctx.harness_build("vulns")
    rc, out = vlib.sh([binp, "-replay", path])
    print(out)
    obj = json.load(open(path))
    m = [l for l in out.splitlines() if l.startswith("coq-case: ")]
    if m:
        v = ("From Coq Require Import List ZArith NArith Bool.\nFrom Scalibr Require Import Remed.Vulns.\nImport ListNotations.\n"
             "Definition c : vcase := %s.\n"
             "Definition model := Eval vm_compute in map (is_affected (c_vuln c)) (c_queries c).\nPrint model.\n"
             "Definition spec := Eval vm_compute in (wf_vuln (c_vuln c), map (osv_is_affected (c_vuln c)) (c_queries c)).\nPrint spec.\n"
             % m[0][len("coq-case: "):])
        rc, out = ctx.run_cases("C18_replay", v)
        print(out)
    return 0

"""C16 - concurrent parts are race-free and schedule-independent."""
import json
import os
import re
import vlib

LEVEL = "proof"
PROPS = "Sched/Props_C16.v"
COQ_FILES = ["Sched/Compute.v", "Sched/ComputeProofs.v", "Sched/Cache.v", "Sched/CacheProofs.v",
             "Sched/RaceModel.v", "Sched/Generated_WalkAccesses.v", "Sched/RaceProofs.v",
             "Sched/ClientRace.v", "Sched/Generated_ClientAccesses.v", "Sched/Generated_ClientExempt.v",
             "Sched/Generated_ResolutionMutations.v", "Sched/ClientRaceProofs.v", "Sched/Props_C16.v"]
THEOREMS_CACHE = ["single_flight", "at_most_one_success_per_key", "waiters_get_owner_result",
                  "returns_linearizable", "no_lost_wakeup"]
THEOREMS_COMPUTE = ["compute_patches_confluent", "compute_patches_confluent_compare", "patch_compare_total_preorder",
                    "patch_compare_not_transitive_refuted", "compute_patches_tie_schedule_dependent_refuted"]
THEOREMS_RACE = ["walk_context_race_free", "shared_clients_race_free", "no_in_place_append",
                 "no_cached_slice_mutated_in_place", "no_shared_subgraph_mutated_in_place"]

META = {
    "technique": "Coq proofs (confluence of a nondeterministic task pool; inductive invariants of an LTS over arbitrarily "
                 "many threads; lock-set / happens-before table regenerated from the Go AST) + vm_compute trace validation "
                 "of the real code under enumerated schedules + Go race detector",
    "level_text": "Proved for all schedules: compute_patches_confluent (any two terminated runs of the ComputePatches task pool "
                  "return the same list, under 'Compare is a total preorder and Compare = 0 only for identical patches' on "
                  "the produced patches; both premises are validated on every observed run, and each is shown necessary by "
                  "a _refuted witness replayed on the real code); five invariants of the RequestCache.Get LTS over every "
                  "reachable state with any number of threads (single_flight, at_most_one_success_per_key, "
                  "waiters_get_owner_result, returns_linearizable, no_lost_wakeup). Tied to the code on every run by "
                  "driving the real common.ComputePatches / datasource.RequestCache under EVERY completion order of 2..4 "
                  "gated callbacks and checking by vm_compute that each observed trace is a run of the model. "
                  "The real override / relax strategies are additionally run under the race detector against a resolve client "
                  "that hands out shared unsorted version slices (race report with osv-scalibr frames or modified client state = violation). "
                  "PARTIAL: data-race freedom of the scan engine is a lock-set/happens-before table regenerated from "
                  "filesystem.go's AST on every run (theorem walk_context_race_free: every conflicting pair between the walk and "
                  "the status ticker is ordered or under a common mutex) and is searched at run time by the Go race detector on "
                  "a > 2 s scan (any report is a violation); a Gallina model cannot exhibit a Go data race.",
    "level_note": "Trusted: Coq kernel + vm_compute; the Go harness harness/cmd/sched (gating, event log order), the AST "
                  "translator harness/cmd/walkaccess, the Go race detector; hook guidedremediation/verif_export_c16.go; "
                  "granularity = caller-supplied callbacks (PatchFunc, fetch functions) and the mutex sections of "
                  "RequestCache; Go memory model below that granularity is not modelled.",
    "design_ref": "DESIGN.md section 5 C16",
}

KF_FILE = os.path.join(vlib.VERIF, "KNOWN_FINDINGS.d", "C16.json")


def describe(c):
    return c


def eval_cases(ctx, name, vfile, n, per=200, extra_defs=""):
    """Compile a cases file written by the harness (chunked), sharded over parallel coqc processes."""
    from concurrent.futures import ThreadPoolExecutor
    txt = open(vfile).read()
    if "Definition cases_0" not in txt:
        return [], [], {}
    header = txt[:txt.index("Definition cases_0")]
    chunks = re.findall(r"(Definition (cases_\d+) : list \w+ :=\n.*?\]\.\n)", txt, re.S)

    def one(k):
        body, cname = chunks[k]
        v = header + body + (
            "Definition corr_bad := Eval vm_compute in bad_indices case_model_ok %s 0.\nPrint corr_bad.\n"
            "Definition spec_bad := Eval vm_compute in bad_indices case_spec_ok %s 0.\nPrint spec_bad.\n"
            % (cname, cname)) + extra_defs.replace("CASES", cname)
        rc, out = ctx.run_cases("%s_shard_%d" % (name, k), v)
        cb = vlib.parse_printed_list(out, "corr_bad")
        sb = vlib.parse_printed_list(out, "spec_bad")
        if rc != 0 or cb is None or sb is None:
            raise RuntimeError("cases shard %s/%d failed: %s" % (name, k, out[-1500:]))
        return cb, sb, out

    corr, spec, outs = [], [], []
    with ThreadPoolExecutor(max_workers=12) as ex:
        res = list(ex.map(one, range(len(chunks))))
    for k, (cb, sb, out) in enumerate(res):
        corr += [k * per + i for i in cb]
        spec += [k * per + i for i in sb]
        outs.append(out)
    return corr, spec, outs


# ----------------------------------------------------------------------------------------------- translate
def translate(ctx):
    """Regenerate Sched/Generated_WalkAccesses.v from the Go AST of the current tree."""
    binp, out = ctx.harness_build("walkaccess")
    if binp is None:
        return {"ok": False, "log": out[-2000:]}
    target = os.path.join(vlib.COQ, "theories", "Sched", "Generated_WalkAccesses.v")
    before = vlib.sha(open(target).read()) if os.path.exists(target) else None
    rc, out = vlib.sh([binp, "-src", os.path.join(vlib.REPO, "extractor/filesystem/filesystem.go"), "-out", target])
    after = vlib.sha(open(target).read()) if os.path.exists(target) else None
    m = re.search(r"accesses=(\d+) calls=(\d+) fields=(\d+)", out)
    # second table: structs of clients/datasource + clients/resolution
    target2 = os.path.join(vlib.COQ, "theories", "Sched", "Generated_ClientAccesses.v")
    before2 = vlib.sha(open(target2).read()) if os.path.exists(target2) else None
    rc2, out2 = vlib.sh([binp, "-structs", ",".join(os.path.join(vlib.REPO, d) for d in ("clients/datasource", "clients/resolution")),
                         "-out", target2])
    after2 = vlib.sha(open(target2).read()) if os.path.exists(target2) else None
    m2 = re.search(r"client_accesses=(\d+) structs=(\d+) escapes=(\d+) mutations=(\d+)", out2)
    rc = rc or rc2
    out += out2
    # third table: in-place mutations in guidedremediation/internal/resolution
    target4 = os.path.join(vlib.COQ, "theories", "Sched", "Generated_ResolutionMutations.v")
    rc4, out4 = vlib.sh([binp, "-mutations", os.path.join(vlib.REPO, "guidedremediation/internal/resolution"),
                         "-name", "resolution_mutations", "-out", target4])
    rc = rc or rc4
    out += out4
    # accepted exceptions of the client discipline: data, from KNOWN_FINDINGS.d/C16.json
    target3 = os.path.join(vlib.COQ, "theories", "Sched", "Generated_ClientExempt.v")
    ex = []
    try:
        ex = [e for e in json.load(open(KF_FILE)) if e.get("kind") == "unprotected-slot" and e.get("property") == "C16"]
    except FileNotFoundError:
        pass
    body = ("(* GENERATED by checks/C16.py from KNOWN_FINDINGS.d/C16.json (entries of kind unprotected-slot) - do not edit. *)\n"
            "From Coq Require Import List String.\nImport ListNotations.\nOpen Scope string_scope.\n\n"
            "Definition client_exempt : list (string * string) :=\n  [ "
            + ";\n    ".join('("%s", "%s")' % (e["struct"], e["field"]) for e in ex) + " ].\n")
    if not os.path.exists(target3) or open(target3).read() != body:
        open(target3, "w").write(body)
    # the tables are compiled on every run: a restored or rewritten .v must never be paired with an older .vo
    for t in (target, target2, target3, target4):
        if os.path.exists(t):
            os.utime(t, None)
    return {"ok": rc == 0, "client_table": {"changed_since_last_run": before2 != after2, "sha256": after2,
                                            "accesses": int(m2.group(1)) if m2 else None, "structs": int(m2.group(2)) if m2 else None,
                                            "escapes": int(m2.group(3)) if m2 else None, "mutations": int(m2.group(4)) if m2 else None}, "changed_since_last_run": before != after, "sha256": after,
            "accesses": int(m.group(1)) if m else None, "calls": int(m.group(2)) if m else None,
            "fields": int(m.group(3)) if m else None, "log": out[-500:]}


# ----------------------------------------------------------------------------------------------- cache
def part_cache(ctx, binp, tag="", evaluate=True):
    d = os.path.join(vlib.BUILD, "cases")
    os.makedirs(d, exist_ok=True)
    vfile = os.path.join(d, "C16_cache%s.v" % tag)
    side = os.path.join(d, "C16_cache%s.jsonl" % tag)
    rc, out = vlib.sh([binp, "-mode", "cache", "-out", vfile, "-jsonl", side, "-seed", str(ctx.seed),
                       "-tier", ctx.tier, "-quiet-us", "150"], timeout=1500)
    races = parse_race_reports(out)
    if rc not in (0, 66):
        raise RuntimeError("sched -mode cache failed: " + out[-2000:])
    cases = [json.loads(l) for l in open(side)]
    for c in cases:
        c["part"] = "cache"
    stats = json.loads(re.search(r"stats: (\{.*\})", out).group(1))
    corr, spec = [], []
    if evaluate:
        corr, spec, _ = eval_cases(ctx, "C16_cache" + tag, vfile, len(cases), per=200)
    ctx.log("cache%s: %d traces, corr_bad=%d spec_bad=%d race_reports=%d" % (tag, len(cases), len(corr), len(spec), len(races)))
    return cases, corr, spec, stats, races


# ----------------------------------------------------------------------------------------------- compute
def part_compute(ctx, binp, tag="", evaluate=True):
    d = os.path.join(vlib.BUILD, "cases")
    vfile = os.path.join(d, "C16_compute%s.v" % tag)
    side = os.path.join(d, "C16_compute%s.jsonl" % tag)
    rc, out = vlib.sh([binp, "-mode", "compute", "-out", vfile, "-jsonl", side, "-seed", str(ctx.seed),
                       "-tier", ctx.tier, "-quiet-us", "100"], timeout=1500)
    races = parse_race_reports(out)
    if rc not in (0, 66):
        raise RuntimeError("sched -mode compute failed: " + out[-2000:])
    cases = [json.loads(l) for l in open(side)]
    for c in cases:
        c["part"] = "compute"
    stats = json.loads(re.search(r"stats: (\{.*\})", out).group(1))
    extra = ("Definition hyps := Eval vm_compute in map (fun c => if hyps_ok c then 1 else 0) CASES.\nPrint hyps.\n")
    corr, spec, outs = eval_cases(ctx, "C16_compute" + tag, vfile, len(cases), per=2, extra_defs=extra) if evaluate else ([], [], [])
    hyps = []
    for o in outs:
        hyps += vlib.parse_printed_list(o, "hyps") or []
    ctx.log("compute%s: %d configurations, %d schedules, corr_bad=%d spec_bad=%d outside_domain=%d race_reports=%d"
            % (tag, len(cases), sum(len(c["traces"]) for c in cases), len(corr), len(spec), hyps.count(0), len(races)))
    return cases, corr, spec, stats, hyps, races


# ----------------------------------------------------------------------------------------------- race reports
def parse_race_reports(out):
    """Go race detector reports -> list of {"text", "frames": [(fn, file:line), (fn, file:line)]}."""
    reps = []
    for blk in re.split(r"^==================\n", out, flags=re.M):
        if "WARNING: DATA RACE" not in blk:
            continue
        frames = []
        for m in re.finditer(r"^(?:Read|Write|Previous read|Previous write) at .*?:\n\s+(\S+)\n\s+(\S+?):(\d+)", blk, re.M):
            fn = m.group(1)
            fn = re.sub(r"\(\)$", "", fn)
            fn = fn.split("/")[-1]
            fn = fn.split(".")[-1] if "." in fn else fn
            frames.append([fn, os.path.basename(m.group(2)), int(m.group(3))])
        reps.append({"frames": frames, "text": blk[:2500]})
    return reps


def coq_race_pairs(ctx):
    v = ("From Coq Require Import List String.\nFrom Scalibr Require Import Sched.RaceModel Sched.Generated_WalkAccesses.\n"
         "Import ListNotations.\nOpen Scope string_scope.\n"
         "Definition race_pairs := Eval vm_compute in map (fun p => (a_fn (ev_acc (fst p)), a_line (ev_acc (fst p)), "
         "a_fn (ev_acc (snd p)), a_line (ev_acc (snd p)))) (races walk_accesses walk_calls walk_root).\nPrint race_pairs.\n")
    rc, out = ctx.run_cases("C16_race_pairs", v)
    pairs = re.findall(r'\("(\w+)",\s*(\d+),\s*"(\w+)",\s*(\d+)\)', out)
    return [(a, int(b), c, int(d)) for a, b, c, d in pairs], rc, out


def part_walk(ctx, racebin, known):
    """Whole scan > 2 s under the race detector.  Reports matching the Coq-derived racy pairs are the known
    finding; anything else is a violation."""
    pairs, rc, out = coq_race_pairs(ctx)
    res = {"coq_race_pairs": len(pairs)}
    reports, walk_out = [], ""
    for ms in ((2600, 4600) if known is not None else (2600,)):
        rc, walk_out = vlib.sh([racebin, "-mode", "walk", "-walk-ms", str(ms)], timeout=120)
        reports = parse_race_reports(walk_out)
        if reports:
            break
    m = re.search(r"walk: packages=(\d+) err=(\S+) elapsed_ms=(\d+)", walk_out)
    res.update({"walk_packages": int(m.group(1)) if m else None, "walk_elapsed_ms": int(m.group(3)) if m else None,
                "race_reports": len(reports)})
    pairset = set()
    for mf, ml, tf, tl in pairs:
        pairset.add(frozenset([(mf, ml), (tf, tl)]))
    matched, unmatched = [], []
    for r in reports:
        fr = frozenset((f[0], f[2]) for f in r["frames"] if f[1] == "filesystem.go")
        (matched if (len(r["frames"]) == 2 and fr in pairset) else unmatched).append(r)
    if known is None:
        # no data race of the walk context is on file as known: every report is a violation
        unmatched, matched = matched + unmatched, []
    res["matched_known"] = len(matched)
    res["unmatched"] = len(unmatched)
    res["matched_frames"] = sorted(set(json.dumps(r["frames"]) for r in matched))
    for r in unmatched[:3]:
        ctx.violation({"kind": "data-race", "part": "walk", "frames": r["frames"], "report": r["text"],
                       "explanation": "the Go race detector reported a data race during a > 2 s filesystem.Run that is not "
                                      "one of the unprotected pairs derived by Sched.RaceModel from the source (theorem "
                                      "walk_context_race_free says there are none)",
                       "replay_cmd": "%s -mode walk -walk-ms 2600" % racebin})
    if known is not None:
        if matched:
            ctx.print_known(known)
        elif pairs and not unmatched:
            ctx.violation({"kind": "known-witness-no-longer-fails", "stale_theorem": "walk_status_ticker_race_refuted",
                           "explanation": "the access table generated from the source still has unordered, unlocked conflicting "
                                          "pairs, but the race detector reported nothing during a scan spanning two ticker periods",
                           "walk_output": walk_out[-1500:]}, nofail=True)
    return res


def scalibr_race(report):
    """Is an access stack of this race report inside osv-scalibr code (as opposed to third-party only)?"""
    secs = re.findall(r"^(?:Read|Write|Previous read|Previous write) at .*?:\n((?:\s+\S.*\n)+)", report["text"], re.M)
    return any("osv-scalibr/" in sec or "/repo/" in sec for sec in secs) or not secs


def part_strategy(ctx, racebin):
    """The real override / relax strategies, concurrent attempts on one package, resolve client handing out one
    shared unsorted slice per package (as resolve.LocalClient does), under the race detector."""
    args = [racebin, "-mode", "strategy", "-seed", str(ctx.seed), "-tier", ctx.tier]
    rc, out = vlib.sh(args, timeout=900)
    runs, pending, per_run_reports = [], [], []
    # race reports are printed when detected, i.e. before the summary line of the run they belong to
    pos = 0
    for m in re.finditer(r"^strategy-run: (\{.*\})$", out, re.M):
        reps = parse_race_reports(out[pos:m.start()])
        pos = m.end()
        runs.append(json.loads(m.group(1)))
        per_run_reports.append(reps)
    tail_reports = parse_race_reports(out[pos:])
    res = {"runs": len(runs), "rc": rc,
           "concurrent_attempts": sum(r.get("concurrent_attempts", 0) for r in runs),
           "shared_slices_handed_out": sum(r.get("shared_slices_handed_out", 0) for r in runs),
           "runs_with_error": sum(1 for r in runs if r.get("err")),
           "computepatches_executions": sum(len(r.get("run_patches") or []) for r in runs),
           "inconsistent_universes": sum(1 for r in runs if r.get("inconsistent")),
           "race_reports": sum(len(x) for x in per_run_reports) + len(tail_reports),
           "third_party_only_reports_ignored": 0, "sample": runs[0] if runs else None}
    if rc not in (0, 66) or not runs:
        ctx.violation({"kind": "strategy-harness-failed", "log": out[-2500:]}, nofail=True)
        return res
    nviol = 0
    for r, reps in zip(runs, per_run_reports):
        ours = [x for x in reps if scalibr_race(x)]
        res["third_party_only_reports_ignored"] += len(reps) - len(ours)
        if r.get("inconsistent") and nviol < 3:
            nviol += 1
            ctx.violation({"kind": "strategy-result-depends-on-run", "part": "strategy", "universe": r["universe"],
                           "inconsistent": r["inconsistent"], "run_patches": r.get("run_patches"), "reference": r.get("reference"),
                           "explanation": "the real %s strategy's ComputePatches was run several times on freshly resolved copies of one "
                                          "universe (concurrent patch attempts), and each initial vulnerability's attempt once alone on a "
                                          "fresh copy: the runs returned different patches, or a patch that an attempt yields on its own is "
                                          "missing from a run" % r["universe"]["strategy"]})
        if (ours or r.get("client_state_modified")) and nviol < 3:
            nviol += 1
            ctx.violation({"kind": "strategy-race-or-client-state-modified", "part": "strategy", "universe": r["universe"],
                           "client_state_modified": r.get("client_state_modified"),
                           "race_frames": [x["frames"] for x in ours[:4]], "report": ours[0]["text"] if ours else None,
                           "explanation": "the %s strategy's concurrent patch attempts (common.ComputePatches fan-out) were run against a "
                                          "resolve client that hands out one shared, unsorted version slice per package; the race detector "
                                          "reported a data race with osv-scalibr frames and/or the slice the client handed out was modified"
                                          % r["universe"]["strategy"]})
    for x in tail_reports:
        if scalibr_race(x) and nviol < 3:
            nviol += 1
            ctx.violation({"kind": "data-race", "part": "strategy", "frames": x["frames"], "report": x["text"]})
    res["violations"] = nviol
    return res


def part_clients(ctx, racebin, known):
    """Concurrent GetVersions / GetProject on one MavenRegistryAPIClient with 0..5 added registries, local HTTP
    server, under the race detector."""
    rc, out = vlib.sh([racebin, "-mode", "clients"], timeout=300)
    reps = parse_race_reports(out)
    runs = [json.loads(x) for x in re.findall(r"^clients-run: (\{.*\})$", out, re.M)]
    res = {"runs": runs, "race_reports": len(reps)}
    mn = re.search(r"^clients-npm-run: (\{.*\})$", out, re.M)
    res["npm"] = json.loads(mn.group(1)) if mn else None
    if res["npm"] is None:
        ctx.violation({"kind": "clients-harness-failed", "log": out[-2000:]}, nofail=True)
    elif res["npm"].get("problems"):
        ctx.violation({"kind": "npm-client-inconsistent-version-lists", "part": "clients", "run": res["npm"],
                       "explanation": "8 concurrent Versions / MatchingVersions calls for one package on one shared "
                                      "resolution.NPMRegistryClient (local registry, 60 versions listed newest first): some caller got an "
                                      "incomplete / unsorted list, or repeated calls differ",
                       "replay_cmd": "%s -mode clients" % racebin})
    if not runs:
        ctx.violation({"kind": "clients-harness-failed", "log": out[-2000:]}, nofail=True)
        return res
    ok_fns = {"GetVersions", "GetProject"}
    matched = [r for r in reps if r["frames"] and all(f[0] in ok_fns and f[1] == "maven_registry.go" for f in r["frames"])]
    other = [r for r in reps if r not in matched]
    res["matched_known"] = len(matched)
    res["unmatched"] = len(other) + (len(matched) if known is None else 0)
    for r in (other + (matched if known is None else []))[:3]:
        ctx.violation({"kind": "data-race", "part": "clients", "frames": r["frames"], "report": r["text"],
                       "explanation": "race detector report while several goroutines look packages up through one shared "
                                      "MavenRegistryAPIClient (as the concurrent patch attempts do)",
                       "replay_cmd": "%s -mode clients" % racebin})
    if known is not None:
        if matched:
            ctx.print_known(known)
        elif not other:
            ctx.violation({"kind": "known-witness-no-longer-fails", "stale_theorem": known["refuted_theorem"],
                           "explanation": "the generated access table still has the append-without-store pairs but the race "
                                          "detector reported nothing", "output": out[-1500:]}, nofail=True)
    return res


# ----------------------------------------------------------------------------------------------- known findings
def kf_compare(ctx, binp, entry):
    """Patch.Compare cycle: replay on result.Patch.Compare (npm semver) and on the model."""
    d = os.path.join(vlib.BUILD, "cases")
    path = os.path.join(d, "C16_kf_compare.json")
    json.dump({"witness": entry["witness"]}, open(path, "w"))
    rc, out = vlib.sh([binp, "-mode", "compare", "-replay", path])
    m = re.search(r"compare-matrix: (\[.*\])", out)
    cp = re.search(r"coq-patches: (.*)", out)
    if rc != 0 or not m or not cp:
        raise RuntimeError("sched -mode compare failed: " + out[-1500:])
    impl = json.loads(m.group(1))
    v = ("From Coq Require Import List ZArith NArith Bool.\nFrom Scalibr Require Import Sched.Compute.\nImport ListNotations.\n"
         "Open Scope Z_scope.\nDefinition ps : list patch := %s.\n"
         "Definition model_matrix := Eval vm_compute in flat_map (fun a => map (fun b => patch_compare a b) ps) ps.\n"
         "Print model_matrix.\n"
         "Definition dom := Eval vm_compute in map (fun p => if in_dom true p || in_dom false p then 1 else 0) ps.\nPrint dom.\n"
         % cp.group(1))
    rc, cout = ctx.run_cases("C16_kf_compare", v)
    model = vlib.parse_printed_list(cout, "model_matrix")
    flat = [x for row in impl for x in row]
    cyc = impl[0][1] <= 0 and impl[1][2] <= 0 and impl[0][2] > 0
    return {"impl_matrix": impl, "model_matrix": model, "model_agrees": model == flat, "still_fails": cyc}


def kf_tie(ctx, binp, entry):
    d = os.path.join(vlib.BUILD, "cases")
    path = os.path.join(d, "C16_kf_tie.json")
    json.dump({"case": entry["witness"]}, open(path, "w"))
    rc, out = vlib.sh([binp, "-mode", "compute", "-replay", path])
    m = re.search(r"implementation: (\{.*\})", out)
    cc = re.search(r"coq-case: (.*)", out, re.S)
    if rc != 0 or not m or not cc:
        raise RuntimeError("sched -mode compute -replay failed: " + out[-1500:])
    impl = json.loads(m.group(1))
    v = ("From Coq Require Import List ZArith NArith Bool.\nFrom Scalibr Require Import Sched.Compute.\nImport ListNotations.\n"
         "Open Scope Z_scope.\nDefinition c : pcase := %s.\n"
         "Definition res := Eval vm_compute in [if case_model_ok c then 1 else 0; if hyps_ok c then 1 else 0].\nPrint res.\n"
         % cc.group(1).strip())
    rc, cout = ctx.run_cases("C16_kf_tie", v)
    res = vlib.parse_printed_list(cout, "res") or [0, 1]
    finals = [t["final"] for t in impl["traces"]]
    return {"finals_per_schedule": finals, "returned_lists": impl["finals"], "model_agrees": res[0] == 1,
            "premises_hold": res[1] == 1, "still_fails": len(set(finals)) > 1}


def cache_calls_overlap(events):
    open_calls = set()
    for e in events:
        if e["e"] == "begin":
            if open_calls:
                return True
            open_calls.add(e["t"])
        elif e["e"] == "return":
            open_calls.discard(e["t"])
    return False


def run(ctx):
    tr = translate(ctx)
    ctx.log("translate: %s" % {k: tr[k] for k in tr if k != "log"})
    present = [f for f in COQ_FILES if os.path.exists(os.path.join(vlib.COQ, "theories", f))]
    bad = ctx.gate(present)
    if bad:
        ctx.violation({"kind": "gate", "hits": bad}, nofail=True)
    pa = ctx.prove(PROPS, clean=(present if ctx.tier == "thorough" else False))
    ctx.log("proof ok=%s obligations=%d closed=%d (%.0fs)" % (pa["ok"], pa["obligations"], pa["print_assumptions_closed"], pa["build_s"]))
    vlib.proof_coverage(ctx, pa)
    ctx.coverage["translator"] = {k: tr[k] for k in tr if k != "log"}
    ctx.coverage["trusted_base"] = vlib.std_trusted_base(pa, [
        "Go harness harness/cmd/sched: gating of the callbacks, the global event log (its order is taken as real-time order), "
        "ranks of version strings computed with deps.dev npm semver Parse/Compare",
        "AST translator harness/cmd/walkaccess (go/parser; no type information) producing Sched/Generated_WalkAccesses.v",
        "hook /repo/guidedremediation/verif_export_c16.go (VerifC16ComputePatches: thin adaptor around common.ComputePatches)",
        "Go race detector (runtime fact for part c); sync.Mutex / sync.WaitGroup / channel semantics as modelled",
        "modelled, not verified: remediation.ConstructPatches (its output is compared with the table the harness intended), "
        "deps.dev semver (oracle for the order of parsed versions), slices.SortFunc beyond 12 elements (pdqsort)"])
    ctx.assumptions += [
        "granularity: callbacks (PatchFunc, fetch functions) and the rq.mu critical sections are atomic steps; fn outcomes are chosen by the environment",
        "Patch.Compare's semver Compare on parsed versions is a total preorder (ranks)",
        "slices.SortFunc on <= 12 elements is insertionSortCmpFunc (modelled literally, right-to-left scan)",
        "part (c) is partial: lock-set/happens-before on the AST-derived table + race detector; no proof about the Go memory model"]
    if not tr["ok"]:
        ctx.violation({"kind": "translator-failed", "log": tr["log"], "theorems_no_longer_tied_to_code": THEOREMS_RACE}, nofail=True)
    binp, out = ctx.harness_build("sched")
    if binp is None:
        ctx.violation({"kind": "harness-build-failed", "log": out[-3000:],
                       "theorems_no_longer_tied_to_code": THEOREMS_CACHE + THEOREMS_COMPUTE}, nofail=True)
        return
    known = {e["id"]: e for e in ctx.known_findings()}

    # ---- correspondence + oracle
    c_cases, c_corr, c_spec, c_stats, _ = part_cache(ctx, binp)
    p_cases, p_corr, p_spec, p_stats, hyps, _ = part_compute(ctx, binp)

    # ---- known findings, replayed on the implementation
    kf_res = {}
    deferred = []   # no-failing-input violations, reported only when no concrete spec failure was found
    e = known.get("patch-compare-mixed-kinds-not-transitive")
    if e:
        r = kf_compare(ctx, binp, e)
        kf_res[e["id"]] = r
        if r["still_fails"] and r["model_agrees"]:
            ctx.print_known(e)
        elif not r["model_agrees"]:
            deferred.append({"kind": "correspondence-broken", "correspondence": "result.Patch.Compare vs Sched.Compute.patch_compare",
                             "witness": e["witness"], "result": r, "theorems_no_longer_tied_to_code": THEOREMS_COMPUTE})
        else:
            deferred.append({"kind": "known-witness-no-longer-fails", "stale_theorem": e["refuted_theorem"], "result": r})
    e = known.get("compute-patches-tie-schedule-dependent")
    if e:
        r = kf_tie(ctx, binp, e)
        kf_res[e["id"]] = r
        if r["still_fails"] and r["model_agrees"]:
            ctx.print_known(e)
        elif not r["model_agrees"]:
            deferred.append({"kind": "correspondence-broken", "correspondence": "common.ComputePatches vs Sched.Compute pool model",
                             "witness": e["witness"], "result": r, "theorems_no_longer_tied_to_code": THEOREMS_COMPUTE})
        else:
            deferred.append({"kind": "known-witness-no-longer-fails", "stale_theorem": e["refuted_theorem"], "result": r})

    # ---- race detector
    racebin, rout = ctx.harness_build("sched", race=True)
    race_res = {}
    if racebin is None:
        ctx.violation({"kind": "race-build-failed", "log": rout[-2000:]}, nofail=True)
    else:
        race_res = part_walk(ctx, racebin, known.get("walk-status-ticker-data-race"))
        ctx.log("walk under -race: %s" % {k: race_res[k] for k in race_res if k != "matched_frames"})
        race_res["clients"] = part_clients(ctx, racebin, known.get("maven-registry-append-shared-capacity-race"))
        race_res["strategy"] = part_strategy(ctx, racebin)
        ctx.log("strategies under -race: %s" % {k: race_res["strategy"][k] for k in race_res["strategy"] if k != "sample"})
        # the same schedules under the race detector: any report here is a violation; in the thorough tier the
        # traces observed under -race are validated against the model as well
        ev = ctx.tier == "thorough"
        rc_cases, rc_corr, rc_spec, rc_stats, rc_races = part_cache(ctx, racebin, tag="_race", evaluate=ev)
        rp_cases, rp_corr, rp_spec, rp_stats, _, rp_races = part_compute(ctx, racebin, tag="_race", evaluate=ev)
        race_res["cache_traces_under_race"] = len(rc_cases)
        race_res["compute_schedules_under_race"] = sum(len(c["traces"]) for c in rp_cases)
        race_res["race_reports_cache_compute"] = len(rc_races) + len(rp_races)
        race_res["traces_under_race_validated_against_model"] = ev
        race_res["load_induced_timeouts_under_race"] = rc_stats.get("load_induced_timeouts", 0) + rp_stats.get("load_induced_timeouts", 0)
        for r in (rc_races + rp_races)[:3]:
            ctx.violation({"kind": "data-race", "part": "cache/compute", "frames": r["frames"], "report": r["text"],
                           "explanation": "race detector report while driving RequestCache / ComputePatches under enumerated schedules",
                           "replay_cmd": "%s -mode cache|compute -out /tmp/x.v -jsonl /tmp/x.jsonl -seed %d -tier %s" % (racebin, ctx.seed, ctx.tier)})
        if ev:
            c_corr += [len(c_cases) + i for i in rc_corr]
            c_spec += [len(c_cases) + i for i in rc_spec]
            c_cases += rc_cases
            base = len(p_cases)
            p_corr += [base + i for i in rp_corr]
            p_spec += [base + i for i in rp_spec]
            p_cases += rp_cases

    # ---- evidence
    seen = set()
    evals = 0
    overlapping = 0
    for c in c_cases:
        evals += 1
        if cache_calls_overlap(c["events"]):
            overlapping += 1
            seen.add(vlib.sha(["cache", c["cfg"]["n"], c["cfg"]["keys"], c["events"]]))
    for c in p_cases:
        for t in c["traces"]:
            evals += 1
            if len(c["cfg"]["base"]) >= 2:
                seen.add(vlib.sha(["compute", c["cfg"], t["order"]]))
    sample_p = dict(p_cases[0]) if p_cases else {}
    if sample_p:
        sample_p["traces"] = sample_p["traces"][:3]
    ctx.coverage.update({
        "evaluations": evals,
        "distinct_nontrivial": len(seen),
        "rule": "a case is one (configuration, complete schedule) executed on the real code: for the cache a start/finish order of "
                "2..4 gated Get calls over 1..2 keys (plus a SetMap/GetMap stream), for ComputePatches a completion order of the "
                "gated patch attempts of a strategy table (2..4 initial vulnerabilities, task trees up to 6 attempts); distinct by "
                "SHA-256 of (part, keys, observed event sequence) for the cache and of (part, strategy table, completion order) for "
                "ComputePatches; non-trivial when >= 2 attempts/lookups are in progress at the same time (for the cache: some Get "
                "begins between another Get's begin and return; for ComputePatches: >= 2 initial attempts, which all start at once)",
        "samples": [c_cases[0], c_cases[len(c_cases) // 2], sample_p],
        "traces_validated_against_impl": evals,
        "exhaustive": False,
        "explanation": "every schedule of each generated configuration is enumerated (calls are started in index order; for "
                       "ComputePatches enumeration is cut at %s schedules per configuration); the 4-call cache configurations are "
                       "a seeded sample in the quick tier and complete in the thorough tier" % ("800" if ctx.tier == "thorough" else "130"),
        "input_distribution": {"cache": c_stats, "cache_traces_with_overlapping_calls": overlapping, "compute": p_stats,
                               "compute_configurations_inside_domain": hyps.count(1),
                               "compute_configurations_outside_domain": hyps.count(0)},
        "hypotheses_validated": {"patch_compare total preorder + zero-means-same on the table outputs (vm_compute, per configuration)":
                                 {"hold": hyps.count(1), "fail (oracle not claimed, correspondence still checked)": hyps.count(0)}},
        "load_induced_timeouts": c_stats.get("load_induced_timeouts", 0) + p_stats.get("load_induced_timeouts", 0)
                                 + race_res.get("load_induced_timeouts_under_race", 0),
        "timeout_policy": "a harness timeout (a Get that does not return within 1 s, an attempt that is not delivered) is only a "
                          "candidate: the same schedule is executed again, alone, with 20x the patience, and only a timeout there is "
                          "reported; the others are counted in load_induced_timeouts",
        "known_findings_results": kf_res,
        "race_detector": race_res,
    })
    if ctx.tier == "thorough":
        chk = ctx.coqchk(["Scalibr.Sched.Props_C16"])
        ctx.coverage["coqchk"] = chk
        if chk["rc"] != 0:
            ctx.violation({"kind": "coqchk-failed", "output": chk["output_tail"]}, nofail=True)

    # ---- verdict
    for i in c_spec[:3]:
        ctx.violation({"kind": "spec-failure", "part": "cache", "case": c_cases[i], "case_index": i,
                       "explanation": "the observed RequestCache trace violates the oracle (single flight / one success per key / "
                                      "returned values / every call returns) evaluated by vm_compute"})
    for i in p_spec[:3]:
        ctx.violation({"kind": "spec-failure", "part": "compute", "case": p_cases[i], "case_index": i,
                       "explanation": "ComputePatches returned different lists under different completion orders, or a list that "
                                      "is not strictly ascending / not made of the strategy's outputs, although Patch.Compare is a "
                                      "total preorder identifying only identical patches on this strategy's outputs"})
    if c_spec or p_spec:
        return
    for d in deferred:
        ctx.violation(d, nofail=True)
    if not pa["ok"]:
        ctx.violation({"kind": "proof-broken", "theorems": THEOREMS_CACHE + THEOREMS_COMPUTE + THEOREMS_RACE,
                       "props_file": pa["props_file"], "log_tail": pa["log_tail"],
                       "explanation": "the Coq development no longer compiles (for RaceProofs.v this happens when the access table "
                                      "regenerated from filesystem.go changed); no failing input found by this run"}, nofail=True)
    if c_corr:
        ctx.violation({"kind": "correspondence-broken", "part": "cache",
                       "correspondence": "datasource.RequestCache (Go) vs Sched.Cache LTS (Coq, vm_compute trace acceptance)",
                       "theorems_no_longer_tied_to_code": THEOREMS_CACHE, "first_mismatch": c_cases[c_corr[0]],
                       "mismatches": len(c_corr)}, nofail=True)
    if p_corr:
        ctx.violation({"kind": "correspondence-broken", "part": "compute",
                       "correspondence": "common.ComputePatches (Go) vs Sched.Compute task pool + sort + compact (Coq, vm_compute)",
                       "theorems_no_longer_tied_to_code": THEOREMS_COMPUTE, "first_mismatch": p_cases[p_corr[0]],
                       "mismatches": len(p_corr)}, nofail=True)


def replay(ctx, path):
    obj = json.load(open(path))
    part = obj.get("part") or (obj.get("case") or {}).get("part") or "cache"
    if part == "strategy":
        racebin, out = ctx.harness_build("sched", race=True)
        rc, out = vlib.sh([racebin, "-mode", "strategy", "-replay", path])
        print(out[-8000:])
        return 0
    if part == "walk":
        racebin, out = ctx.harness_build("sched", race=True)
        rc, out = vlib.sh([racebin, "-mode", "walk", "-walk-ms", "2600"])
        print(out[-6000:])
        return 0
    binp, out = ctx.harness_build("sched")
    rc, out = vlib.sh([binp, "-mode", part, "-replay", path])
    print("\n".join(l for l in out.splitlines() if not l.startswith("coq-case")))
    m = re.search(r"coq-case: (.*)", out, re.S)
    if m:
        if part == "cache":
            v = ("From Coq Require Import List ZArith NArith Bool.\nFrom Scalibr Require Import Sched.Cache.\nImport ListNotations.\n"
                 "Definition c : ccase := %s.\nDefinition model_accepts := Eval vm_compute in case_model_ok c.\nPrint model_accepts.\n"
                 "Definition spec_holds := Eval vm_compute in case_spec_ok c.\nPrint spec_holds.\n" % m.group(1).strip())
        else:
            v = ("From Coq Require Import List ZArith NArith Bool.\nFrom Scalibr Require Import Sched.Compute.\nImport ListNotations.\n"
                 "Open Scope Z_scope.\nDefinition c : pcase := %s.\n"
                 "Definition model_agrees := Eval vm_compute in case_model_ok c.\nPrint model_agrees.\n"
                 "Definition premises_hold := Eval vm_compute in hyps_ok c.\nPrint premises_hold.\n"
                 "Definition spec_holds := Eval vm_compute in case_spec_ok c.\nPrint spec_holds.\n" % m.group(1).strip())
        rc, cout = ctx.run_cases("C16_replay", v)
        print(cout)
    return 0

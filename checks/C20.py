"""C20 - detectors see all extracted packages and their findings are reported intact."""
import json
import os
import re
from concurrent.futures import ThreadPoolExecutor

import vlib

LEVEL = "proof"
PROPS = "Detect/Props_C20.v"
COQ_FILES = ["Detect/Index.v", "Detect/Model.v", "Detect/Cases.v", "Detect/Proofs.v", "Detect/Props_C20.v"]
THEOREMS = ["index_complete_exact", "index_enumerations_exact", "each_detector_once", "status_per_detector",
            "validation_decides_consistency", "advisory_conflict_fails", "findings_intact",
            "findings_content_intact", "detector_findings_not_mutated", "scan_reports", "cancelled_run_reports_nothing"]
CORPUS = os.path.join(vlib.HARNESS, "cmd", "detect", "corpus")
CORR = ("detector.Run + packageindex.New and scalibr.Scan with fake extractors/detectors (Go) vs "
        "Detect.Model.detector_run / scan_tail + Detect.Index (Coq, vm_compute)")
HEADER = ("From Coq Require Import List NArith ZArith Bool.\nFrom Scalibr Require Import Detect.Index Detect.Model Detect.Cases.\n"
          "Import ListNotations.\nOpen Scope N_scope.\n")

META = {
    "technique": "Coq proofs over a model of detector.Run / validateAdvisories / packageindex / the tail of Scan "
                 "(pointer-level model: tagged copies, no write through detector-owned pointers) + vm_compute correspondence against the real "
                 "detector.Run, packageindex.New and scalibr.Scan driven with fake extractors and detectors",
    "level_text": "For every inventory and every list of detectors (any number, any finding lists, error flags): "
                  "GetSpecific(name,type) of the index = the extracted packages with that purl, in order, packages "
                  "without purl absent (index_complete_exact; GetAll/GetAllOfType up to permutation); each detector is "
                  "called once, in order, with that index (each_detector_once); one status per detector reflecting its "
                  "error (status_per_detector); Run fails iff a finding lacks an advisory/ID or two findings share an ID "
                  "with different advisory content, and then reports no finding and the scan status is Failed "
                  "(advisory_conflict_fails, scan_reports); every finding a detector returns appears, in order, tagged with "
                  "that detector's name - at full strength, including *Finding pointers shared between detectors "
                  "(findings_intact; refuted before /repo fix 08ea3f5f, witness kept as regression corpus); Run writes nothing into "
                  "the detectors' own Finding values (detector_findings_not_mutated).",
    "level_note": "Trusted: Coq kernel + vm_compute; harness harness/cmd/detect (fake extractors with ToPURL from "
                  "metadata, fake detectors, in-memory FS); context cancellation is modelled and compared but lies outside "
                  "the property's quantifier; nil *Finding elements, NaN CVSS scores, packages with nil Extractor and "
                  "findings produced by extractors are excluded (DESIGN.md C20 limits).",
    "design_ref": "DESIGN.md section 5 C20",
}


def inp(c):
    return {k: c[k] for k in ("fs_pkgs", "sa_pkgs", "dets", "ctx0")}


def describe(c):
    return c


def shard_and_run(ctx, vfile):
    txt = open(vfile).read()
    header = txt[:txt.index("Definition cases_0")]
    chunks = re.findall(r"(Definition (cases_\d+) : list dcase :=\n.*?\]\.\n)", txt, re.S)
    per = 250

    def one(k):
        body, name = chunks[k]
        v = header + body + (
            "Definition corr_bad := Eval vm_compute in bad_indices case_model_ok %s 0.\nPrint corr_bad.\n"
            "Definition spec_bad := Eval vm_compute in bad_indices case_spec_ok %s 0.\nPrint spec_bad.\n"
            "Definition alias_idx := Eval vm_compute in bad_indices (fun c => negb (has_alias c)) %s 0.\nPrint alias_idx.\n"
            "Definition unclaimed := Eval vm_compute in bad_indices claimed %s 0.\nPrint unclaimed.\n"
            % (name, name, name, name))
        rc, out = ctx.run_cases("C20_shard_%d" % k, v)
        res = [vlib.parse_printed_list(out, n) for n in ("corr_bad", "spec_bad", "alias_idx", "unclaimed")]
        if rc != 0 or any(r is None for r in res):
            raise RuntimeError("cases shard %d failed: %s" % (k, out[-1500:]))
        return [[k * per + i for i in r] for r in res]

    acc = [[], [], [], []]
    with ThreadPoolExecutor(max_workers=12) as ex:
        for res in ex.map(one, range(len(chunks))):
            for a, r in zip(acc, res):
                a += r
    return acc


def eval_one(ctx, name, coq_case):
    v = HEADER + ("Definition c : dcase := %s.\n"
                  "Definition r_model := Eval vm_compute in [case_model_ok c; case_spec_ok c; has_alias c; claimed c].\nPrint r_model.\n"
                  "Definition model_findings := Eval vm_compute in map t_dets (rr_findings (detector_run (index_new (c_fs c ++ c_sa c)) (c_dets c) (c_ctx0 c))).\nPrint model_findings.\n"
                  "Definition spec_findings := Eval vm_compute in map t_dets (expected_findings (c_dets c)).\nPrint spec_findings.\n"
                  % coq_case)
    rc, out = ctx.run_cases(name, v)
    m = re.search(r"r_model\s*=\s*\[([^\]]*)\]", out, re.S)
    if rc != 0 or not m:
        raise RuntimeError("single-case evaluation failed: " + out[-1500:])
    vals = [x.strip() == "true" for x in m.group(1).split(";")]
    return dict(zip(["model_ok", "spec_ok", "has_alias", "claimed"], vals)), out


def run_single(ctx, binp, case, tag):
    p = os.path.join(vlib.BUILD, "cases", "C20_%s.json" % tag)
    os.makedirs(os.path.dirname(p), exist_ok=True)
    json.dump({"case": case}, open(p, "w"))
    rc, out = vlib.sh([binp, "-replay", p], timeout=120)
    if rc != 0:
        raise RuntimeError("harness replay failed: " + out[-1500:])
    obs = [l for l in out.splitlines() if l.startswith("observed: ")][0][len("observed: "):]
    coq = [l for l in out.splitlines() if l.startswith("coq-case: ")][0][len("coq-case: "):]
    return json.loads(obs), coq


def run(ctx):
    bad = ctx.gate(COQ_FILES)
    if bad:
        ctx.violation({"kind": "gate", "hits": bad}, nofail=True)
    pa = ctx.prove(PROPS, clean=(COQ_FILES if ctx.tier == "thorough" else False))
    ctx.log("proof ok=%s obligations=%d closed=%d" % (pa["ok"], pa["obligations"], pa["print_assumptions_closed"]))
    vlib.proof_coverage(ctx, pa)
    rc, out = ctx.coq_make(["theories/Detect/Cases.vo"])
    if rc != 0:
        raise RuntimeError("Detect/Cases.v does not compile: " + out[-2000:])
    if ctx.tier == "thorough" and pa["ok"]:
        chk = ctx.coqchk(["Scalibr.Detect.Props_C20"])
        ctx.coverage["coqchk"] = chk
        if chk["rc"] != 0:
            ctx.violation({"kind": "coqchk-failed", "output": chk["output_tail"]}, nofail=True)
    binp, out = ctx.harness_build("detect")
    if binp is None:
        ctx.violation({"kind": "harness-build-failed", "log": out[-3000:], "correspondence": CORR,
                       "theorems_no_longer_tied_to_code": THEOREMS}, nofail=True)
        ctx.coverage["trusted_base"] = vlib.std_trusted_base(pa)
        return

    # ---- regression corpus first (witnesses of fixed findings, at full strength)
    corpus = sorted(f for f in os.listdir(CORPUS) if f.endswith(".json")) if os.path.isdir(CORPUS) else []
    for fn in corpus:
        case = json.load(open(os.path.join(CORPUS, fn)))["case"]
        tag = re.sub(r"\W", "_", fn[:-5])
        obs, coq = run_single(ctx, binp, case, "corpus_" + tag)
        r, out = eval_one(ctx, "C20_corpus_" + tag, coq)
        ctx.log("corpus %s: %s" % (fn, r))
        if not r["spec_ok"]:
            ctx.violation({"kind": "spec-failure", "case": dict(case, **obs), "corpus_file": fn,
                           "explanation": "regression corpus: the witness of a fixed finding violates the property again"})
        elif not r["model_ok"]:
            ctx.violation({"kind": "correspondence-broken", "correspondence": CORR, "first_mismatch": dict(case, **obs),
                           "corpus_file": fn, "theorems_no_longer_tied_to_code": THEOREMS}, nofail=True)
    ctx.coverage["regression_corpus"] = corpus
    # ---- known findings (none listed for C20 at present): replay each witness
    for e in ctx.known_findings():
        obs, coq = run_single(ctx, binp, e["witness"], "known")
        r, out = eval_one(ctx, "C20_known", coq)
        if not r["spec_ok"] and r["model_ok"]:
            ctx.print_known(e)
        else:
            ctx.violation({"kind": "known-finding-stale", "finding": e["id"], "stale_theorem": e.get("refuted_theorem"),
                           "witness": e["witness"], "observed": obs, "model_agrees": r["model_ok"]}, nofail=True)

    d = os.path.join(vlib.BUILD, "cases")
    os.makedirs(d, exist_ok=True)
    vfile = os.path.join(d, "C20_cases.v")
    side = os.path.join(d, "C20_cases.jsonl")
    if ctx.tier == "thorough":
        args = ["-maxtotal", "3", "-maxdet", "3", "-maxpkgs", "4", "-random", "3000", "-alias", "1000"]
    else:
        args = ["-maxtotal", "2", "-maxdet", "3", "-maxpkgs", "3", "-random", "400", "-alias", "150"]
    rc, out = vlib.sh([binp, "-out", vfile, "-jsonl", side, "-seed", str(ctx.seed)] + args, timeout=900)
    if rc != 0:
        raise RuntimeError("harness failed: " + out[-2000:])
    cases = [json.loads(l) for l in open(side)]
    ctx.log("harness ran %d cases" % len(cases))
    corr_bad, spec_bad, alias_idx, unclaimed = shard_and_run(ctx, vfile)
    ctx.log("corr_bad=%d spec_bad=%d cases_with_shared_pointers=%d unclaimed(cancelled)=%d"
            % (len(corr_bad), len(spec_bad), len(alias_idx), len(unclaimed)))
    # report the smallest failing cases first
    spec_bad = sorted(set(spec_bad),
                      key=lambda i: (sum(len(x["results"]) for x in cases[i]["dets"]) + len(cases[i]["dets"])
                                     + len(cases[i]["fs_pkgs"]) + len(cases[i]["sa_pkgs"]), i))

    # ---- evidence
    seen = set()
    streams, ndet, nfind, outcome = {}, {}, {}, {}
    purl_pk = nopurl_pk = 0
    for c in cases:
        streams[c["stream"]] = streams.get(c["stream"], 0) + 1
        ndet[len(c["dets"])] = ndet.get(len(c["dets"]), 0) + 1
        tot = sum(len(x["results"]) for x in c["dets"])
        nfind[tot] = nfind.get(tot, 0) + 1
        o = c["run"]["err"] + ("/scan-failed" if (c.get("scan") or {}).get("failed") else "")
        outcome[o] = outcome.get(o, 0) + 1
        for p in c["fs_pkgs"] + c["sa_pkgs"]:
            if p["purl"] is None:
                nopurl_pk += 1
            else:
                purl_pk += 1
        if any(x["results"] or x["fails"] for x in c["dets"]):
            seen.add(vlib.sha(inp(c)))
    flags = {"detector_error": sum(1 for c in cases if any(x["fails"] for x in c["dets"])),
             "detector_cancels_ctx": sum(1 for c in cases if any(x["cancels"] for x in c["dets"])),
             "ctx_cancelled_before": sum(1 for c in cases if c["ctx0"]),
             "nil_advisory": sum(1 for c in cases if any(r["adv"] is None for x in c["dets"] for r in x["results"])),
             "nil_advisory_id": sum(1 for c in cases if any(r["adv"] is not None and r["adv"]["id"] is None for x in c["dets"] for r in x["results"])),
             "same_detector_twice": sum(1 for c in cases if len({x["name"] for x in c["dets"]}) < len(c["dets"]))}
    muts = sorted({r["adv"].get("mut") for c in cases if c["stream"] == "single-field-difference"
                   for x in c["dets"] for r in x["results"] if r["adv"] and r["adv"].get("mut")})
    ctx.coverage.update({
        "single_field_mutations": muts,
        "evaluations": len(cases),
        "distinct_nontrivial": len(seen),
        "rule": "a case = inventory (filesystem + standalone packages, with/without purl) + 0..4 fake detectors, run through "
                "detector.Run+packageindex.New and through scalibr.Scan; distinct by SHA-256 of (packages, detectors, ctx flag); "
                "non-trivial when at least one detector returns a finding or an error",
        "samples": [cases[i] for i in sorted({0, len(cases) // 3, len(cases) // 2, len(cases) - 1})],
        "exhaustive": False,
        "input_distribution": {"streams": streams, "detectors_per_case": {str(k): v for k, v in sorted(ndet.items())},
                               "findings_per_case": {str(k): v for k, v in sorted(nfind.items())},
                               "outcomes": outcome, "features": flags,
                               "packages_with_purl": purl_pk, "packages_without_purl": nopurl_pk,
                               "cases_with_shared_finding_pointers": len(alias_idx),
                               "not_claimed_cancelled": len(unclaimed)},
        "vm_compute_cases": len(cases),
        "explanation": "exhaustive small scope: every inventory of <= %s packages over {no purl, 3 purls} x 3 fs/standalone "
                       "splits; every assignment of <= %s findings in total (alphabet: nil advisory, advisory without ID, 2 IDs x 2 "
                       "bodies) to <= 3 detectors x every error-flag vector; plus seeded random cases (0..4 detectors, <= 4 "
                       "findings each, severity/CVSS pointer variants, duplicate detector names, cancellation) and a stream with "
                       "*Finding pointers shared between detectors; single-field-difference stream: for every leaf field of "
                       "detector.Advisory found by reflection (nested structs/pointers/slices; nil for every pointer) pairs of "
                       "findings with one advisory ID whose advisories differ in exactly that leaf, equality decided by the "
                       "harness's own structural serialisation" % (("4", "3") if ctx.tier == "thorough" else ("3", "2")),
    })
    ctx.coverage["trusted_base"] = vlib.std_trusted_base(pa, [
        "Go harness harness/cmd/detect (fake filesystem/standalone extractors with ToPURL from package metadata, fake "
        "detectors recording the index they are handed, testing/fstest in-memory FS, ids encoded in names)",
        "unordered results (GetAll, GetAllOfType, ScanResult findings and plugin statuses after Go's unstable sort) are "
        "compared as multisets / sorted id lists",
        "modelled, not verified: filesystem.Run / standalone.Run (their inventories are the harness input), stats collector"])
    ctx.assumptions += ["the extraction phases deliver filesystem packages then standalone packages in extractor order "
                        "(single file, one extractor per phase in the harness)",
                        "reflect.DeepEqual on Advisory = structural equality (no NaN scores generated)"]
    vlib.standard_decide(ctx, pa, corr_bad, spec_bad, cases, describe, THEOREMS, CORR)


def replay(ctx, path):
    obj = json.load(open(path))
    case = obj.get("case") or obj.get("first_mismatch") or obj.get("witness") or (obj if "dets" in obj else None)
    if case is None:
        print("replay file carries no case (kind=%s)" % obj.get("kind"))
        return 0
    binp, out = ctx.harness_build("detect")
    if binp is None:
        print(out)
        return 1
    ctx.coq_make(["theories/Detect/Cases.vo"])
    obs, coq = run_single(ctx, binp, inp(case) | {"stream": case.get("stream", "replay")}, "replay")
    print("implementation (detector.Run):", json.dumps(obs["run"]))
    print("implementation (scalibr.Scan):", json.dumps(obs.get("scan")))
    r, out = eval_one(ctx, "C20_replay", coq)
    print("model agrees: %s; spec holds: %s; shared pointers: %s" % (r["model_ok"], r["spec_ok"], r["has_alias"]))
    print(out)
    return 0

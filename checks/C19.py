"""C19 - capability filtering and plugin name resolution are consistent."""
import json
import os
import re
import subprocess
from concurrent.futures import ThreadPoolExecutor

import vlib

LEVEL = "proof"
PROPS = "Registry/Props_C19.v"
GEN = "Registry/Generated_Registry.v"
COQ_FILES = ["Registry/Plugin.v", "Registry/Generated_Registry.v", "Registry/Cases.v", "Registry/Proofs.v",
             "Registry/Props_C19.v"]
LOGIC_THEOREMS = ["validate_iff_satisfies", "filter_keeps_exactly_valid", "filter_does_not_modify_input", "filtered_config_validates",
                  "validation_succeeds_iff_all_satisfied", "filter_from_capabilities_validates",
                  "from_names_resolves_iff", "enable_required_sound", "enable_required_no_new_duplicates"]
DATA_THEOREMS = ["names_unique", "every_name_resolves", "own_name_resolves_to_self",
                 "required_extractors_enableable", "filtered_scan_never_fails_validation"]
THEOREMS = LOGIC_THEOREMS + DATA_THEOREMS
CORR = ("plugin.ValidateRequirements, {filesystem,standalone,detector}/list.{FilterByCapabilities,FromCapabilities,"
        "ExtractorsFromNames,ExtractorFromName,DetectorsFromNames}, ScanConfig.{EnableRequiredExtractors,"
        "ValidatePluginRequirements} (Go) vs Registry.Plugin (Coq, vm_compute) over Generated_Registry.v")

META = {
    "technique": "translator (Go registry dump -> Coq data, regenerated every run) + Coq proofs (logic theorems for all "
                 "registries; data theorems by vm_compute over the complete registry x capability product) + exhaustive "
                 "vm_compute correspondence against the real list/validation functions",
    "level_text": "Logic theorems (any plugin lists, any capability tuple): the validator accepts exactly when the "
                  "requirements are satisfied; FilterByCapabilities keeps exactly those plugins, in order; a configuration "
                  "of filtered lists validates; EnableRequiredExtractors, when it succeeds, enables every required name and "
                  "keeps what was enabled. Data theorems over the regenerated registry (every registered filesystem "
                  "extractor, standalone extractor, detector; every key of the three name tables; all 60 capability "
                  "tuples): names unique (per list and globally), every name resolves to registered plugins, a plugin's "
                  "own name resolves to itself, every configuration of registered detectors can be auto-completed, and "
                  "the configuration FromCapabilities x 3 passes EnableRequiredExtractors + ValidatePluginRequirements. "
                  "The model is tied to the code exhaustively: every (plugin, tuple), (requirement tuple, tuple), name, "
                  "pair of names and detector subset is run through the real functions and compared by vm_compute.",
    "level_note": "Trusted: Coq kernel + vm_compute; the translator/harness harness/cmd/registry (about 600 lines, dumps "
                  "Name/Version/Requirements/RequiredExtractors of fresh instances and the name tables, sorted); hooks "
                  "{extractor/filesystem,extractor/standalone,detector}/list/verif_export.go exposing the unexported name "
                  "tables; strings are numbered (table in the generated file). Not covered: the error message texts, "
                  "plugins registered outside the three list packages.",
    "design_ref": "DESIGN.md section 5 C19",
}


def _key(c):
    return json.dumps([c.get(k) for k in ("fn", "kind", "req", "caps", "caps2", "input", "fs", "sa", "det", "fake_required")])


def describe(c):
    d = dict(c)
    return d


def translate(ctx, binp):
    """Regenerate Generated_Registry.v from VERIF_REPO's plugin lists; report the diff to the committed copy."""
    gen_path = os.path.join(vlib.COQ, "theories", GEN)
    tmp = os.path.join(vlib.BUILD, "Generated_Registry.v.new")
    rc, out = vlib.sh([binp, "-emit-coq", tmp], timeout=300)
    if rc != 0:
        raise RuntimeError("translator failed: " + out[-2000:])
    new = open(tmp).read()
    old = open(gen_path).read() if os.path.exists(gen_path) else ""
    if new != old:
        with open(gen_path, "w") as f:
            f.write(new)
    p = subprocess.run(["git", "-C", vlib.VERIF, "show", "HEAD:coq/theories/" + GEN], stdout=subprocess.PIPE,
                       stderr=subprocess.DEVNULL, text=True)
    info = {"changed_on_disk": new != old}
    if p.returncode == 0:
        committed = p.stdout
        if committed == new:
            info["diff_to_committed"] = "identical"
        else:
            import difflib
            d = list(difflib.unified_diff(committed.splitlines(), new.splitlines(), "committed", "regenerated", lineterm="", n=0))
            info["diff_to_committed"] = {"lines": len(d), "head": d[:40]}
    else:
        info["diff_to_committed"] = "no committed copy yet"
    return info


def shard_and_run(ctx, vfile):
    txt = open(vfile).read()
    header = txt[:txt.index("Definition cases_0")]
    chunks = re.findall(r"(Definition (cases_\d+) : list rcase :=\n.*?\]\.\n)", txt, re.S)
    per = 500

    def one(k):
        body, name = chunks[k]
        v = header + body + (
            "Definition corr_bad := Eval vm_compute in bad_indices case_model_ok %s 0.\nPrint corr_bad.\n"
            "Definition spec_bad := Eval vm_compute in bad_indices case_spec_ok %s 0.\nPrint spec_bad.\n" % (name, name))
        rc, out = ctx.run_cases("C19_shard_%d" % k, v)
        cb = vlib.parse_printed_list(out, "corr_bad")
        sb = vlib.parse_printed_list(out, "spec_bad")
        if rc != 0 or cb is None or sb is None:
            raise RuntimeError("cases shard %d failed: %s" % (k, out[-1500:]))
        return [k * per + i for i in cb], [k * per + i for i in sb]

    corr, spec = [], []
    with ThreadPoolExecutor(max_workers=12) as ex:
        for cb, sb in ex.map(one, range(len(chunks))):
            corr += cb
            spec += sb
    return corr, spec


def registry_sizes(ctx):
    v = ("From Coq Require Import List NArith ZArith Bool.\nFrom Scalibr Require Import Registry.Plugin Registry.Generated_Registry.\n"
         "Definition sizes := Eval vm_compute in map (fun k => length (flat (all_of the_registry k))) kinds ++ "
         "map (fun k => length (names_of the_registry k)) kinds ++ (length all_caps :: length env_caps :: length name_strings :: nil).\nPrint sizes.\n")
    rc, out = ctx.run_cases("C19_sizes", v)
    return vlib.parse_printed_list(out, "sizes")


def run(ctx):
    binp, out = ctx.harness_build("registry")
    if binp is None:
        bad = ctx.gate([f for f in COQ_FILES])
        pa = ctx.prove(PROPS)
        vlib.proof_coverage(ctx, pa)
        ctx.coverage["trusted_base"] = vlib.std_trusted_base(pa)
        ctx.violation({"kind": "harness-build-failed", "log": out[-3000:], "correspondence": CORR,
                       "theorems_no_longer_tied_to_code": THEOREMS,
                       "explanation": "the translator/harness does not build against this tree, so the registry cannot be "
                                      "regenerated and the theorems are not tied to the code"}, nofail=True)
        return
    tinfo = translate(ctx, binp)
    ctx.log("translate: %s" % (tinfo["diff_to_committed"] if isinstance(tinfo["diff_to_committed"], str)
                               else "%d diff lines to committed copy" % tinfo["diff_to_committed"]["lines"]))
    bad = ctx.gate(COQ_FILES)
    if bad:
        ctx.violation({"kind": "gate", "hits": bad}, nofail=True)
    pa = ctx.prove(PROPS, clean=(COQ_FILES if ctx.tier == "thorough" else False))
    ctx.log("proof ok=%s obligations=%d closed=%d" % (pa["ok"], pa["obligations"], pa["print_assumptions_closed"]))
    vlib.proof_coverage(ctx, pa)
    # Cases.v does not depend on the proofs (and Props does not depend on it): build it for the correspondence
    rc, out = ctx.coq_make(["theories/Registry/Cases.vo"])
    if rc != 0:
        raise RuntimeError("Registry/Cases.v does not compile: " + out[-2000:])
    if ctx.tier == "thorough" and pa["ok"]:
        chk = ctx.coqchk(["Scalibr.Registry.Props_C19"])
        ctx.coverage["coqchk"] = chk
        if chk["rc"] != 0:
            ctx.violation({"kind": "coqchk-failed", "output": chk["output_tail"]}, nofail=True)

    d = os.path.join(vlib.BUILD, "cases")
    os.makedirs(d, exist_ok=True)
    vfile = os.path.join(d, "C19_cases.v")
    side = os.path.join(d, "C19_cases.jsonl")
    args = [binp, "-observe", vfile, "-jsonl", side, "-seed", str(ctx.seed)]
    if ctx.tier == "thorough":
        args.append("-thorough")
    rc, out = vlib.sh(args, timeout=900)
    if rc != 0:
        raise RuntimeError("harness failed: " + out[-2000:])
    ctx.log(out.strip())
    cases = [json.loads(l) for l in open(side)]
    corr_bad, spec_bad = shard_and_run(ctx, vfile)
    ctx.log("cases=%d corr_bad=%d spec_bad=%d" % (len(cases), len(corr_bad), len(spec_bad)))

    # evidence
    fns = {}
    seen = set()
    for c in cases:
        fns[c["fn"]] = fns.get(c["fn"], 0) + 1
        seen.add(vlib.sha(_key(c)))
    sizes = registry_sizes(ctx) or []
    obs_dist = {}
    for c in cases:
        o = c["observed"]
        k = c["fn"] + ":" + ("error" if o == "error" else str(o) if isinstance(o, (bool, str)) else "value")
        obs_dist[k] = obs_dist.get(k, 0) + 1
    pick = {}
    for c in cases:
        pick.setdefault(c["fn"], []).append(c)
    samples = []
    for fn, l in sorted(pick.items()):
        for c in (l[len(l) // 3], l[-1]):
            s = dict(c)
            for k in ("input", "fs", "sa", "det"):
                if isinstance(s.get(k), list) and len(s[k]) > 12:
                    s[k] = s[k][:12] + ["... (%d)" % len(c[k])]
            if isinstance(s.get("observed"), list) and len(s["observed"]) > 12:
                s["observed"] = s["observed"][:12] + ["... (%d)" % len(c["observed"])]
            if isinstance(s.get("observed"), dict):
                s["observed"] = {k: (v[:12] + ["... (%d)" % len(v)] if isinstance(v, list) and len(v) > 12 else v)
                                 for k, v in s["observed"].items()}
            s["coq"] = s["coq"][:300]
            samples.append(s)
    ctx.coverage.update({
        "evaluations": len(cases),
        "distinct_nontrivial": len(seen),
        "rule": "every (requirement tuple, capability tuple) pair, every (registered plugin, capability tuple) pair, every "
                "capability tuple per list function, every key / plugin name / probe string (alone and in ordered pairs; "
                "filesystem pairs exhaustive in the thorough tier, 400 sampled in quick), every subset of registered "
                "detectors, every (detector with requirements, pre-enabled extractor) pair counts as one case (DESIGN.md "
                "section 14: the space is enumerated completely); distinct by SHA-256 of (function, inputs)",
        "samples": samples,
        "exhaustive": True,
        "input_distribution": {"cases_per_function": fns, "observed_outcomes": obs_dist},
        "registry": dict(zip(["fs_plugins", "sa_plugins", "det_plugins", "fs_names", "sa_names", "det_names",
                              "capability_tuples", "documented_environments", "strings"], sizes)),
        "translator": tinfo,
        "vm_compute_cases": len(cases),
        "explanation": "finite domain enumerated completely: 60x60 validator inputs; all registered plugins x 60 capability "
                       "tuples; FilterByCapabilities/FromCapabilities for every tuple and kind; all names; all 2^n detector "
                       "subsets for EnableRequiredExtractors; the Scan preparation on FromCapabilities x 3 for every tuple "
                       "(and restricted to each single detector). Histories on shared inputs: ONE list object (instantiated from All, and the "
                       "list a name resolution returned) filtered for every ordered pair of capability tuples (filesystem list: 32x32 "
                       "documented environments in quick, 60x60 in thorough) with the caller's slice compared to its pre-call copy after "
                       "each call; name resolution and EnableRequiredExtractors called twice on one names slice / one config. Seeded extras: random filter inputs with repetitions, "
                       "random 3..5-name lists, random fake detectors requiring arbitrary names.",
    })
    ctx.coverage["trusted_base"] = vlib.std_trusted_base(pa, [
        "translator + harness harness/cmd/registry (one binary; dumps the registry as data, calls the real functions)",
        "hooks /repo/{extractor/filesystem,extractor/standalone,detector}/list/verif_export.go (VerifNameTable)",
        "Go map iteration order is abstracted: set-valued results are compared sorted by name",
        "modelled, not verified: error message texts; what plugins do when run"])
    ctx.assumptions += ["plugin instances are described by (kind, Name, Version, Requirements, RequiredExtractors); two "
                        "fresh instances of one InitFn have the same description (checked: the translator and the "
                        "observer instantiate separately)",
                        "strings are represented by their rank in the sorted string table of the generated file"]
    spec_bad = sorted(spec_bad, key=lambda i: (len(cases[i]["coq"]), i))    # smallest failing cases first
    corr_bad = sorted(corr_bad, key=lambda i: (len(cases[i]["coq"]), i))
    vlib.standard_decide(ctx, pa, corr_bad, spec_bad, cases, describe, THEOREMS, CORR)


def replay(ctx, path):
    obj = json.load(open(path))
    case = obj.get("case") or obj.get("first_mismatch")
    if case is None:
        print("replay file carries no case (kind=%s)" % obj.get("kind"))
        return 0
    binp, out = ctx.harness_build("registry")
    if binp is None:
        print(out)
        return 1
    translate(ctx, binp)
    ctx.coq_make(["theories/Registry/Cases.vo"])
    d = os.path.join(vlib.BUILD, "cases")
    os.makedirs(d, exist_ok=True)
    vfile, side = os.path.join(d, "C19_replay_cases.v"), os.path.join(d, "C19_replay_cases.jsonl")
    args = [binp, "-observe", vfile, "-jsonl", side, "-seed", str(obj.get("seed", 1))]
    if obj.get("tier") == "thorough":
        args.append("-thorough")
    rc, out = vlib.sh(args, timeout=900)
    want = _key(case)
    hit = None
    for l in open(side):
        c = json.loads(l)
        if _key(c) == want:
            hit = c
            break
    if hit is None:
        print("case not found in this tree's enumeration (registry changed?)")
        return 1
    print("implementation: %s -> %s" % (want, json.dumps(hit["observed"])))
    v = ("From Coq Require Import List NArith ZArith Bool.\nFrom Scalibr Require Import Registry.Plugin Registry.Generated_Registry Registry.Cases.\n"
         "Import ListNotations.\nOpen Scope N_scope.\nDefinition c : rcase := %s.\n"
         "Definition model_agrees := Eval vm_compute in case_model_ok c.\nPrint model_agrees.\n"
         "Definition spec_holds := Eval vm_compute in case_spec_ok c.\nPrint spec_holds.\n" % hit["coq"])
    rc, out = ctx.run_cases("C19_replay", v)
    print(out)
    return 0

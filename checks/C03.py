"""C03 - well-formed package databases are reported completely and exactly."""
import base64
import json
import os
import re
from concurrent.futures import ThreadPoolExecutor

import vlib

LEVEL = "proof"
PROPS = "Formats/Props_C03.v"

# name -> description of one implemented format. level: "byte" = the Coq model parses the file's bytes and the
# theorem is F_roundtrip from bytes; "struct" = the model is the extractor's loop over the decoded structure
# (decoder trusted), theorem F_struct_exact.
FORMATS = {
    "apk": {"level": "byte", "files": ["Formats/Apk.v", "Formats/ApkProofs.v"], "theorems": ["apk_roundtrip", "apk_layout_irrelevant"],
            "what": "apk installed (lib/apk/db/installed)"},
    "gradle": {"level": "byte", "files": ["Formats/Gradle.v", "Formats/GradleProofs.v"], "theorems": ["gradle_roundtrip"],
               "what": "gradle.lockfile"},
    "gemfile": {"level": "byte", "files": ["Formats/Gemfile.v", "Formats/GemfileProofs.v"], "theorems": ["gemfile_roundtrip"],
                "what": "Gemfile.lock"},
    "dpkg": {"level": "byte", "files": ["Formats/Dpkg.v", "Formats/DpkgProofs.v"], "theorems": ["dpkg_roundtrip"],
             "what": "dpkg status (var/lib/dpkg/status, status.d/*)"},
    "requirements": {"level": "byte", "files": ["Formats/Requirements.v", "Formats/RequirementsProofs.v"],
                     "theorems": ["requirements_roundtrip_on_D", "requirements_roundtrip_refuted"], "full_spec": True,
                     "what": "requirements.txt (pinned name==version sub-grammar; full statement REFUTED for dotted / one-letter names, theorem on domain D, see KNOWN_FINDINGS.d/C03.json)"},
    "gomodb": {"level": "byte", "files": ["Formats/GoModBytes.v", "Formats/GoModBytesProofs.v"], "theorems": ["gomod_bytes_roundtrip"], "modelled": True,
               "what": "go.mod from bytes (line-oriented sub-grammar of x/mod/modfile: lines, blocks, comments, CRLF; modfile's token "
                       "validation is an oracle table; quoted strings etc. are reported as not modelled)"},
    "composer": {"level": "struct", "files": ["Formats/Structs.v", "Formats/StructsProofs.v"], "theorems": ["composer_struct_exact"], "what": "composer.lock"},
    "cargo": {"level": "struct", "files": [], "theorems": ["cargo_struct_exact"], "what": "Cargo.lock"},
    "poetry": {"level": "struct", "files": [], "theorems": ["poetry_struct_exact"], "what": "poetry.lock"},
    "nugetlock": {"level": "struct", "files": [], "theorems": ["nuget_struct_exact"], "what": "packages.lock.json"},
    "pipfile": {"level": "struct", "files": [], "theorems": ["pipfile_struct_exact"], "what": "Pipfile.lock"},
    "packagelock": {"level": "struct", "files": ["Formats/Structs2.v", "Formats/Structs2Proofs.v"], "theorems": ["packagelock_struct_exact", "packagelock_v1_struct_exact"],
                    "what": "package-lock.json v1 (nested dependencies tree), v2, v3 (packages map); registry versions (aliases, file:, git: correspondence only)"},
    "gomod": {"level": "struct", "files": [], "theorems": ["gomod_struct_exact"],
              "what": "go.mod (require, replace with/without version and local paths, go and toolchain directives; structure level: x/mod/modfile trusted)"},
}
ALL_FORMATS = ["dpkg status", "apk installed", "requirements.txt", "go.mod", "Cargo.lock", "package-lock.json v1-v3",
               "composer.lock", "Gemfile.lock", "gradle.lockfile", "poetry.lock", "Pipfile.lock", "packages.lock.json"]
PLANNED = {"gradle": "gradle.lockfile (byte)", "gemfile": "Gemfile.lock (byte)", "dpkg": "dpkg status (byte)",
           "requirements": "requirements.txt (byte, well-formed sub-grammar)", "packagelock": "package-lock.json v1-v3 (struct)",
           "composer": "composer.lock (struct)", "pipfile": "Pipfile.lock (struct)", "nugetlock": "packages.lock.json (struct)",
           "cargo": "Cargo.lock (struct)", "poetry": "poetry.lock (struct)", "gomod": "go.mod (struct)"}

COQ_FILES = ["Formats/Lines.v", "Formats/LinesProofs.v", "Formats/Props_C03.v"] + sorted({f for v in FORMATS.values() for f in v["files"]})
THEOREMS = [t for v in FORMATS.values() for t in v["theorems"]]


def _levels():
    byte = [v["what"] for v in FORMATS.values() if v["level"] == "byte"]
    struct = [v["what"] for v in FORMATS.values() if v["level"] == "struct"]
    todo = [PLANNED[k] for k in PLANNED if k not in FORMATS]
    return byte, struct, todo


_b, _s, _t = _levels()
META = {
    "technique": "Coq round-trip theorems (render -> extractor model = expected records, induction over any number of records "
                 "and any permitted layout) + vm_compute correspondence against each real extractor's Extract on rendered files",
    "level_text": "Per format F: theorem F_roundtrip / F_struct_exact: for ANY number of well-formed records and ANY permitted layout "
                  "(record order, LF/CRLF per line, final newline or not, blank lines, comments, unrelated fields, position of special "
                  "records) the model of the extractor returns exactly the expected (name, version) list. "
                  "Proved at byte level (model parses the file's bytes, incl. the bufio.Scanner line/64KiB-token semantics): "
                  + ("; ".join(_b) or "none") + ". Proved at structure level (extractor loop over the decoded structure; decoder = "
                  "encoding/json / BurntSushi TOML / x/mod/modfile trusted and exercised by the correspondence): "
                  + ("; ".join(_s) or "none") + ". Not yet modelled: " + ("; ".join(_t) or "none") + ". "
                  "Every run feeds generated files (the Coq cases file re-checks render_F records layout = the bytes given to the "
                  "extractor) to the real Extract under the production file name and compares with the model (vm_compute) and with "
                  "the independent expected records.",
    "level_note": "Trusted: Coq kernel + vm_compute; Go harness harness/cmd/formats (generators, projection of Inventory.Packages to "
                  "(name, version), error kinds as enums); structure-level formats additionally trust the third-party decoder. "
                  "The model is hand-written Gallina tied to the code only by the correspondence run.",
    "design_ref": "DESIGN.md section 5 C03",
}

PER = 25  # cases per chunk (harness) = per coqc shard


def trailer(fmt, name):
    p = fmt
    extra = ""
    if FORMATS.get(fmt, {}).get("full_spec"):
        extra = "Definition full_bad := Eval vm_compute in bad_indices %s_case_full_spec_ok %s 0.\nPrint full_bad.\n" % (p, name)
    if FORMATS.get(fmt, {}).get("modelled"):
        extra += "Definition modelled := Eval vm_compute in [length (filter %s_case_modelled %s)].\nPrint modelled.\n" % (p, name)
    return extra + (
        "Definition render_bad := Eval vm_compute in bad_indices %s_case_render_ok %s 0.\nPrint render_bad.\n"
        "Definition corr_bad := Eval vm_compute in bad_indices %s_case_model_ok %s 0.\nPrint corr_bad.\n"
        "Definition spec_bad := Eval vm_compute in bad_indices %s_case_spec_ok %s 0.\nPrint spec_bad.\n"
        "Definition claimed := Eval vm_compute in [length (filter %s_case_claimed %s)].\nPrint claimed.\n"
        % (p, name, p, name, p, name, p, name))


def run_all_shards(ctx, fmts, d):
    """One pool over the shards of all formats. Returns {fmt: (render_bad, corr_bad, spec_bad, claimed)}."""
    tasks = []
    for fmt in fmts:
        txt = open(os.path.join(d, "C03_%s.v" % fmt)).read()
        if "Definition cases_0" not in txt:
            continue
        header = txt[:txt.index("Definition cases_0")]
        for k, (body, name) in enumerate(re.findall(r"(Definition (cases_\d+) : list \w+ :=\n.*?\]\.\n)", txt, re.S)):
            tasks.append((fmt, k, header + body + trailer(fmt, name)))

    def one(t):
        fmt, k, v = t
        rc, out = ctx.run_cases("C03_%s_shard_%d" % (fmt, k), v)
        res = [vlib.parse_printed_list(out, n) for n in ("render_bad", "corr_bad", "spec_bad", "claimed")]
        if rc != 0 or any(r is None for r in res):
            raise RuntimeError("cases shard %s/%d failed: %s" % (fmt, k, out[-1500:]))
        off = k * PER
        full = vlib.parse_printed_list(out, "full_bad") or []
        mod = vlib.parse_printed_list(out, "modelled")
        return fmt, [off + i for i in res[0]], [off + i for i in res[1]], [off + i for i in res[2]], res[3][0], [off + i for i in full], (mod[0] if mod else None)

    acc = {fmt: [[], [], [], 0, [], None] for fmt in fmts}
    with ThreadPoolExecutor(max_workers=14) as ex:
        for fmt, a, b, c, n, f, m in ex.map(one, tasks):
            acc[fmt][0] += a
            acc[fmt][1] += b
            acc[fmt][2] += c
            acc[fmt][3] += n
            acc[fmt][4] += f
            if m is not None:
                acc[fmt][5] = (acc[fmt][5] or 0) + m
    return acc


OPTION_MARKERS = ("--hash", "--global-option", "--config-settings", "-C")


def explained_by(case, entry):
    """Is a well-formed, outside-D requirements case on which the extractor is wrong an instance of this known finding?"""
    names = [r["name"] for r in (case.get("claim") or {}).get("records") or []]
    if entry.get("cause") == "option-marker":
        return any(m in n for n in names for m in OPTION_MARKERS)
    if entry.get("cause") == "name-pattern":
        return any(not re.fullmatch(r"\w(\w|-)+", n, re.A) for n in names)
    return False


def replay_known(ctx, binp, entry):
    """Re-run a known finding's witness on the implementation, model and full spec. Returns (still_fails, model_agrees)."""
    d = os.path.join(vlib.BUILD, "cases", "C03")
    w = entry["witness"]
    rp = os.path.join(d, "known_%s.json" % entry["id"])
    json.dump({"case": {"format": w["format"], "bytes_b64": w["bytes_b64"], "coq_claim": w["coq_claim"], "coq_extra": w.get("coq_extra", ""),
                        "path": w.get("path", "")}}, open(rp, "w"))
    rc, out = vlib.sh([binp, "-replay", rp])
    mod = [l for l in out.splitlines() if l.startswith("coq-module: ")]
    m = [l for l in out.splitlines() if l.startswith("coq-case: ")]
    if rc != 0 or not m or not mod:
        raise RuntimeError("known-finding replay failed: " + out[-1500:])
    fmt = w["format"]
    impl_line = [l for l in out.splitlines() if l.startswith("implementation: ")]
    impl = json.loads(impl_line[0][len("implementation: "):]) if impl_line else {}
    if FORMATS.get(fmt, {}).get("full_spec"):
        terms = ("[if %s_case_model_ok c then 1 else 0; if %s_case_full_spec_ok c then 1 else 0; if %s_case_wf_outside_D c then 1 else 0]%%nat"
                 % (fmt, fmt, fmt))
    else:
        terms = "[if %s_case_model_ok c then 1 else 0; if %s_case_spec_ok c then 1 else 0; 0]%%nat" % (fmt, fmt)
    v = ("From Coq Require Import List NArith Bool.\nFrom Scalibr Require Import Formats.Lines %s.\nImport ListNotations.\n"
         "Definition c : %s_case := %s.\nDefinition flags := Eval vm_compute in %s.\nPrint flags.\n"
         % (mod[0][len("coq-module: "):], fmt, m[0][len("coq-case: "):], terms))
    rc, out2 = ctx.run_cases("C03_known_%s" % entry["id"].replace("-", "_"), v)
    flags = vlib.parse_printed_list(out2, "flags")
    if rc != 0 or flags is None:
        raise RuntimeError("known-finding evaluation failed: " + out2[-1500:])
    if w.get("regression_expect_kind"):
        flags[1] = 1 if impl.get("kind") == w["regression_expect_kind"] else 0
    return {"model_agrees": flags[0] == 1, "still_fails": flags[1] == 0, "wf_outside_D": flags[2] == 1, "implementation": out.splitlines()[2] if len(out.splitlines()) > 2 else ""}


def describe(c):
    d = {k: c.get(k) for k in ("format", "stream", "tags", "n_records", "claim", "expected", "observed", "path", "bytes_b64", "coq_claim", "coq_extra")}
    d["text"] = c.get("text")
    return d


BOUNDARY_TAGS = {"single-record", "no-final-newline", "crlf", "mixed-eol", "special-first", "special-last", "no-records"}


def nontrivial(c):
    return c.get("stream") != "malformed" and (c.get("n_records", 0) >= 2 or bool(BOUNDARY_TAGS & set(c.get("tags") or [])))


def run(ctx):
    bad = ctx.gate(COQ_FILES)
    if bad:
        ctx.violation({"kind": "gate", "hits": bad}, nofail=True)
    pa = ctx.prove(PROPS, clean=(COQ_FILES if ctx.tier == "thorough" else False))
    ctx.log("proof ok=%s obligations=%d closed=%d" % (pa["ok"], pa["obligations"], pa["print_assumptions_closed"]))
    vlib.proof_coverage(ctx, pa)
    if ctx.tier == "thorough" and pa["ok"]:
        chk = ctx.coqchk(["Scalibr.Formats.Props_C03"])
        ctx.coverage["coqchk"] = chk
        ctx.log("coqchk rc=%s (%.0fs)" % (chk["rc"], chk["wall_s"]))
        if chk["rc"] != 0:
            ctx.violation({"kind": "coqchk-failed", "output": chk["output_tail"]}, nofail=True)
    byte, struct, todo = _levels()
    ctx.coverage["formats"] = {"proved_byte_level": byte, "proved_structure_level": struct, "not_yet": todo,
                               "property_lists": ALL_FORMATS}
    binp, out = ctx.harness_build("formats")
    if binp is None:
        ctx.violation({"kind": "harness-build-failed", "log": out[-3000:], "correspondence": "Extract vs Formats.* models",
                       "theorems_no_longer_tied_to_code": THEOREMS}, nofail=True)
        ctx.coverage["trusted_base"] = vlib.std_trusted_base(pa)
        return
    d = os.path.join(vlib.BUILD, "cases", "C03")
    os.makedirs(d, exist_ok=True)
    load_induced = {}
    sizes = {"byte": (1000, 300), "struct": (700, 200)} if ctx.tier == "thorough" else {"byte": (120, 36), "struct": (90, 27)}
    for level, (n, mal) in sizes.items():
        fmts = [f for f, v in FORMATS.items() if v["level"] == level]
        if not fmts:
            continue
        # exit code 3 = an Extract call exceeded its deadline: the files of the format in progress are complete up to and
        # including that case (observed kind "timeout"); run again for the formats that were not reached
        todo = list(fmts)
        while todo:
            rc, out = vlib.sh([binp, "-outdir", d, "-seed", str(ctx.seed), "-n", str(n), "-mal", str(mal),
                               "-formats", ",".join(todo)], timeout=1800)
            for fm, k in re.findall(r"^load_induced_timeouts format=(\w+) n=(\d+)", out, re.M):
                load_induced[fm] = load_induced.get(fm, 0) + int(k)
            if rc == 3:
                m = re.search(r"^timeout format=(\w+)", out, re.M)
                if not m or m.group(1) not in todo:
                    raise RuntimeError("harness timeout report not understood: " + out[-800:])
                ctx.log("harness: Extract exceeded its deadline in format %s; continuing with the remaining formats" % m.group(1))
                ran = set(re.findall(r"^format=(\w+) cases=", out, re.M))
                todo = [f for f in todo if f not in ran]
            elif rc != 0:
                raise RuntimeError("harness failed: " + out[-2000:])
            else:
                todo = []
    all_cases, all_corr, all_spec, all_render = [], [], [], []
    per_format = {}
    seen = set()
    evals = 0
    shard_res = run_all_shards(ctx, list(FORMATS), d)
    known = ctx.known_findings()
    known_replay = {}
    # regression corpus first: witnesses of findings that were fixed in /repo must now satisfy the full statement
    regress = []
    try:
        regress = [e for e in json.load(open(os.path.join(vlib.VERIF, "KNOWN_FINDINGS.d", "C03.json"))) if e.get("status") == "fixed"]
    except FileNotFoundError:
        pass
    for e in regress:
        res = replay_known(ctx, binp, e)
        known_replay[e["id"] + " (fixed, regression)"] = res
        if res["still_fails"]:
            ctx.violation({"kind": "regression-of-fixed-finding", "finding": e["id"], "fix_commit": e.get("fix_commit"),
                           "case": {"format": e["witness"]["format"], "bytes_b64": e["witness"]["bytes_b64"], "coq_claim": e["witness"]["coq_claim"],
                                    "path": e["witness"].get("path", ""), "text": e["witness"].get("text"), "expected": e["witness"].get("expected")},
                           "replay": res, "explanation": "the witness of a defect that was fixed fails again on this tree"})
        elif not res["model_agrees"]:
            ctx.violation({"kind": "correspondence-broken", "finding": e["id"], "replay": res, "theorems_no_longer_tied_to_code": THEOREMS,
                           "explanation": "regression witness: implementation satisfies the statement but the model disagrees with it"}, nofail=True)
    for e in known:
        res = replay_known(ctx, binp, e)
        known_replay[e["id"]] = res
        if res["still_fails"] and res["model_agrees"]:
            ctx.print_known(e)
        elif not res["still_fails"]:
            ctx.violation({"kind": "known-finding-stale", "finding": e["id"], "stale_theorem": e.get("refuted_theorem"),
                           "replay": res, "witness": e["witness"],
                           "explanation": "the recorded witness no longer fails on the implementation while the Coq model (and the "
                                          "_refuted theorem) still predict the failure: model and code have drifted apart"}, nofail=True)
        else:
            ctx.violation({"kind": "known-finding-model-mismatch", "finding": e["id"], "replay": res, "witness": e["witness"],
                           "explanation": "the witness still fails but the model no longer reproduces the observed output"}, nofail=True)
    for fmt, info in FORMATS.items():
        side = os.path.join(d, "C03_%s.jsonl" % fmt)
        cases = [json.loads(l) for l in open(side)]
        rb, cb, sb, claimed, fb, n_modelled = shard_res[fmt]
        # full-strength statement failing on a well-formed file outside D: must be an instance of a listed known finding
        known_hits = {}
        for i in fb:
            if i in sb:
                continue
            ids = [e["id"] for e in known if (e.get("format") == fmt or (e.get("format") == "gomod" and fmt == "gomodb")) and explained_by(cases[i], e)]
            if ids:
                for k_ in ids:
                    known_hits[k_] = known_hits.get(k_, 0) + 1
            else:
                sb = sorted(set(sb) | {i})      # outside D, wrong, and not covered by any recorded finding: a new violation
        # a panic on a generated (well-formed stream) file is a spec failure as well: spec_ok covers it through the oracle
        # harness-side sanity: production path accepted, locations reported
        meta_bad = [i for i, c in enumerate(cases) if not c["observed"]["file_required"] or
                    (c["observed"]["kind"] == "ok" and not c["observed"]["locations_ok"])]
        off = len(all_cases)
        all_cases += cases
        all_render += [off + i for i in rb]
        all_corr += [off + i for i in cb]
        all_spec += [off + i for i in sorted(set(sb) | set(meta_bad))]
        streams, tags, rsizes = {}, {}, {}
        nt = 0
        for c in cases:
            streams[c["stream"]] = streams.get(c["stream"], 0) + 1
            for t in c.get("tags") or []:
                if c["stream"] != "malformed":
                    tags[t] = tags.get(t, 0) + 1
            b = "0" if c["n_records"] == 0 else "1" if c["n_records"] == 1 else "2-8" if c["n_records"] <= 8 else "9+"
            rsizes[b] = rsizes.get(b, 0) + 1
            if nontrivial(c):
                h = vlib.sha([fmt, c["bytes_b64"]])
                if h not in seen:
                    seen.add(h)
                    nt += 1
        outcomes = {}
        for c in cases:
            outcomes[c["observed"]["kind"]] = outcomes.get(c["observed"]["kind"], 0) + 1
        per_format[fmt] = {"level": info["level"], "cases": len(cases), "claimed_wellformed_checked_against_expected": claimed,
                           "distinct_nontrivial": nt, "streams": streams, "boundary_tags": tags, "records_per_file": rsizes,
                           "observed_outcomes": outcomes, "render_mismatch": len(rb), "corr_bad": len(cb), "spec_bad": len(sb),
                           "wellformed_outside_D_failing_full_statement": len(fb), "known_finding_instances": known_hits}
        if n_modelled is not None:
            per_format[fmt]["inside_modelled_subgrammar"] = n_modelled
        evals += len(cases)
        ctx.log("%s: cases=%d claimed=%d render_bad=%d corr_bad=%d spec_bad=%d" % (fmt, len(cases), claimed, len(rb), len(cb), len(sb)))
    samples = []
    for fmt in FORMATS:
        cs = [c for c in all_cases if c["format"] == fmt and c["stream"] == "wellformed" and 2 <= c["n_records"] <= 4]
        if cs:
            s = dict(cs[0])
            s.pop("bytes_b64", None)
            samples.append(s)
        ms = [c for c in all_cases if c["format"] == fmt and c["stream"] == "malformed"]
        if ms:
            s = dict(ms[0])
            s.pop("bytes_b64", None)
            samples.append(s)
    ctx.coverage["known_findings"] = known_replay
    ctx.coverage["load_induced_timeouts"] = {"count": sum(load_induced.values()), "per_format": load_induced,
                                             "rule": "an Extract call that passes the harness deadline (2 s) is a hang only if the harness process burned > 2.4 s CPU since the call "
                                                     "started or the call is still running after 20 s; slower returns are counted here and compared as usual"}
    ctx.coverage.update({
        "evaluations": evals,
        "distinct_nontrivial": len(seen),
        "rule": "a case is one generated file run through the real extractor's Extract under the production file name; distinct by "
                "SHA-256 of (format, file bytes); non-trivial when it comes from the structured stream and has >= 2 records or a "
                "boundary layout (single record, special record first/last, no final newline, CRLF/mixed line endings, no records)",
        "samples": samples,
        "exhaustive": False,
        "input_distribution": per_format,
        "vm_compute_cases": evals,
        "explanation": "per format: structured stream (records + layout from the ecosystem's alphabet, boundary layouts on purpose, a few "
                       "deliberately ill-formed record sets and 64 KiB-line cases for which the oracle claims nothing) and a malformed "
                       "stream (mutations of rendered files) on which only model = implementation and absence of panics are checked; "
                       "for every structured case Coq also checks render_F records layout = the bytes fed to the extractor",
    })
    ctx.coverage["trusted_base"] = vlib.std_trusted_base(pa, [
        "Go harness harness/cmd/formats: generators, Go re-implementation of render (re-checked against Coq's render on every case), "
        "projection of Inventory.Packages to (name, version) in order (sorted where the extractor iterates a Go map), error kinds as enums",
        "structure-level formats: encoding/json, BurntSushi TOML, golang.org/x/mod/modfile decode the harness serialiser's output to the "
        "structure the model runs on (exercised by the correspondence, not proved)",
        "modelled, not verified: bufio.Scanner (Lines.v), strings.Cut/SplitN/TrimSpace, regexp (hand parser in the model), net/textproto"])
    ctx.assumptions += ["the Coq model of each extractor corresponds to the Go code (checked on every generated case, not proved)",
                        "bufio.Scanner delivers lines as modelled in Formats/Lines.v (64 KiB token limit exercised by boundary cases)"]
    if all_render:
        i = all_render[0]
        ctx.violation({"kind": "render-mismatch", "case": describe(all_cases[i]), "mismatches": len(all_render),
                       "explanation": "the harness' Go renderer and Coq's render_F disagree on this case: the generated files are not "
                                      "in the theorem's domain (machinery defect, not a finding about the implementation)"}, nofail=True)
    vlib.standard_decide(ctx, pa, all_corr, all_spec, all_cases, describe, THEOREMS,
                         "Extract of each format's extractor (Go) vs Formats.<F>.parse_<F> (Coq, vm_compute)")


def replay(ctx, path):
    binp, out = ctx.harness_build("formats")
    rc, out = vlib.sh([binp, "-replay", path])
    print(out)
    mod = [l for l in out.splitlines() if l.startswith("coq-module: ")]
    m = [l for l in out.splitlines() if l.startswith("coq-case: ")]
    obj = json.load(open(path))
    fmt = obj["case"]["format"]
    if m and mod:
        v = ("From Coq Require Import List NArith Bool.\nFrom Scalibr Require Import Formats.Lines %s.\nImport ListNotations.\n"
             "Definition c : %s_case := %s.\n"
             "Definition model_agrees := Eval vm_compute in %s_case_model_ok c.\nPrint model_agrees.\n"
             "Definition render_agrees := Eval vm_compute in %s_case_render_ok c.\nPrint render_agrees.\n"
             "Definition in_claimed_domain := Eval vm_compute in %s_case_claimed c.\nPrint in_claimed_domain.\n"
             "Definition spec_holds := Eval vm_compute in %s_case_spec_ok c.\nPrint spec_holds.\n"
             % (mod[0][len("coq-module: "):], fmt, m[0][len("coq-case: "):], fmt, fmt, fmt, fmt))
        rc, out = ctx.run_cases("C03_replay", v)
        print(out)
    return 0

"""C02, second sentence ("a failure on one file is confined to that extractor's reported status: the scan completes and the
results of other files and other extractors are unaffected"): the tie between Walk/Props_C02_engine.v and the code.

engine_stream: generated trees with >= 2 fake extractors that require the SAME files; an earlier- (or later-) listed one returns
  an error, an error with partial results, or panics. Every case is run through the real filesystem.Run / scalibr.Scan by the
  walk harness (harness/cmd/walk, used read-only through its -replay mode) together with its COUNTERFACTUAL in which the failing
  extractor succeeds. Judged by (i) Walk.Model correspondence (case_model_ok, vm_compute) on both runs and (ii) the oracle: the
  scan completes, the sequence of visits / FileRequired / Extract calls is identical, and every other extractor has identical
  packages and status (filesystem.Run and scalibr.Scan). Panics are propagated by the engine (engine_propagates_panic): for
  those only the correspondence is checked.
real_side_by_side: harness/cmd/engineconf - real built-in extractors over a small on-disk tree with corrupt files next to healthy
  files of other formats (and a fake extractor failing on a file a real one also wants), compared with the repaired tree.
"""
import json
import os
import random
import sys
from concurrent.futures import ThreadPoolExecutor

import vlib

sys.path.insert(0, os.path.dirname(os.path.abspath(__file__)))
import walk_common as wc  # noqa: E402  (read-only use)

NAMES = ["a", "b", "c", "d.txt", "e f", "-g", ".h", "pkg.json", "x.lock", "z", "ab"]
DIRS = ["lib", "src", "node_modules", "lib64", "srcs"]
CORR_NAME = "filesystem.Run / scalibr.Scan with several extractors on the same files (Go) vs Walk.Model (Coq, vm_compute)"
THEOREMS = ["extract_failure_confined", "engine_propagates_panic", "engine_panics_only_through_extract"]


def gen_pair(rng, i):
    """Returns (failing_case, counterfactual_case, meta)."""
    files = []
    root = {"n": ".", "k": "dir", "ch": []}
    for n in rng.sample(NAMES, rng.randint(1, 3)):
        root["ch"].append({"n": n, "k": "reg", "size": rng.randint(1, 9)})
        files.append(n)
    for d in rng.sample(DIRS, rng.randint(0, 2)):
        node = {"n": d, "k": "dir", "ch": []}
        for n in rng.sample(NAMES, rng.randint(1, 2)):
            node["ch"].append({"n": n, "k": "reg", "size": rng.randint(1, 9)})
            files.append(d + "/" + n)
        if rng.random() < 0.3:
            sub = {"n": rng.choice(DIRS), "k": "dir", "ch": [{"n": rng.choice(NAMES), "k": "reg", "size": 1}]}
            if sub["n"] != d:
                node["ch"].append(sub)
                files.append(d + "/" + sub["n"] + "/" + sub["ch"][0]["n"])
        root["ch"].append(node)
    rng.shuffle(root["ch"])
    k = rng.randint(2, 4)
    exts = ["e%d" % j for j in range(k)]
    shared = rng.sample(files, rng.randint(1, min(2, len(files))))
    req, xt = [], []
    for e in exts:
        for p in files:
            wants = p in shared and (rng.random() < 0.9) or rng.random() < 0.35
            if wants:
                req.append([e, p])
    pos = rng.choice([0, 0, 0, k // 2, k - 1])          # mostly listed first: later extractors must still run
    failing = exts[pos]
    for p in shared:                                     # the failing extractor and at least one other want every shared file
        for e in {failing, exts[(pos + 1) % k]}:
            if [e, p] not in req:
                req.append([e, p])
    rng.shuffle(req)
    mode = ["err", "err", "err-partial", "err-partial", "panic"][i % 5]
    fail_paths = [p for p in shared if rng.random() < 0.8] or shared[:1]
    for e, p in req:
        pkgs = [{"name": "%s-%s-%d" % (e, p.replace("/", "_"), j), "version": str(rng.randint(1, 9)), "locs": [p]}
                for j in range(rng.randint(0, 2))]
        xt.append({"ext": e, "path": p, "pkgs": pkgs})
    other_err = None
    if rng.random() < 0.25:                              # an unrelated failure of another extractor on another file, in both runs
        cands = [x for x in xt if x["ext"] != failing and x["path"] not in fail_paths]
        if cands:
            other_err = rng.choice(cands)
            other_err["err"] = True
    base = {"stream": "engine", "roots": [root], "exts": exts, "req": req, "cancel": {"kind": "", "n": 0}}
    fxt, sxt = [], []
    for x in xt:
        f, s = dict(x), dict(x)
        if x["ext"] == failing and x["path"] in fail_paths:
            if mode == "panic":
                f["panic"] = True
                f["pkgs"] = []
            else:
                f["err"] = True
                if mode == "err":
                    f["pkgs"] = []
        fxt.append(f)
        sxt.append(s)
    F = dict(base, extract=fxt, note="failing")
    S = dict(base, extract=sxt, note="counterfactual")
    meta = {"failing": failing, "position": pos, "n_exts": k, "mode": mode, "fail_paths": fail_paths, "shared": shared,
            "other_failure": bool(other_err)}
    return F, S, meta


def _replay(binp, case, d, tag):
    p = os.path.join(d, "engine_%s.json" % tag)
    with open(p, "w") as f:
        json.dump({"case": case}, f)
    rc, out = vlib.sh([binp, "-replay", p], timeout=120)
    coq = [l for l in out.splitlines() if l.startswith("coq-case: ")]
    impl = [l for l in out.splitlines() if l.startswith("implementation: ")]
    if rc != 0 or not coq or not impl:
        raise RuntimeError("walk -replay failed: " + out[-1500:])
    return coq[0][len("coq-case: "):], json.loads(impl[0][len("implementation: "):])


def _by_ext(inv, e):
    return sorted(json.dumps(p, sort_keys=True) for p in (inv or []) if p["ext"] == e)


def _status(sts, e):
    return [s for s in (sts or []) if s["ext"] == e]


def oracle(F, S, fo, so, meta):
    """Problems with the confinement statement on this pair (empty list = holds)."""
    probs = []
    if meta["mode"] == "panic":
        return probs
    if fo["class"] != "ok":
        probs.append("the scan did not complete: %s %s" % (fo["class"], fo.get("detail", "")))
    if so["class"] != "ok":
        probs.append("the counterfactual scan did not complete: %s" % so["class"])
    if fo["events"] != so["events"]:
        fx = [e for e in fo["events"] if e[0] == "X"]
        sx = [e for e in so["events"] if e[0] == "X"]
        missing = [e for e in sx if e not in fx]
        probs.append("visits / FileRequired / Extract calls differ from the counterfactual run; Extract calls missing: %s" % missing[:6])
    for e in F["exts"]:
        if e == meta["failing"]:
            continue
        for label, fi, si, fs, ss in (("filesystem.Run", fo.get("inv"), so.get("inv"), fo.get("status"), so.get("status")),
                                      ("scalibr.Scan", fo["scan"].get("inv"), so["scan"].get("inv"), fo["scan"].get("status"), so["scan"].get("status"))):
            if _by_ext(fi, e) != _by_ext(si, e):
                lost = [p for p in _by_ext(si, e) if p not in _by_ext(fi, e)]
                probs.append("%s: packages of %s differ from the counterfactual run (lost: %s)" % (label, e, lost[:4]))
            if _status(fs, e) != _status(ss, e):
                probs.append("%s: status of %s differs from the counterfactual run: %s vs %s" % (label, e, _status(fs, e), _status(ss, e)))
    st = _status(fo.get("status"), meta["failing"])
    items = [tuple(x) for s in st for x in (s.get("items") or [])]
    if fo["class"] == "ok":
        if not st or st[0]["enum"] == "succeeded":
            probs.append("the failing extractor %s is reported as %s" % (meta["failing"], st[0]["enum"] if st else "absent"))
        called = {e[2] for e in fo["events"] if e[0] == "X" and e[1] == meta["failing"]}
        for p in meta["fail_paths"]:
            if p in called and ("extract", p) not in items:
                probs.append("the failure of %s on %s is not an item of its status" % (meta["failing"], p))
    return probs


def engine_stream(ctx, n_pairs):
    """Returns dict(cases, corr_bad, oracle_bad(list of (idx, problems)), metas) or None when the walk harness does not build."""
    binp, out = ctx.harness_build("walk")
    if binp is None:
        return {"build_failed": out}
    d = os.path.join(vlib.BUILD, "cases", "C02_engine")
    os.makedirs(d, exist_ok=True)
    rng = random.Random(ctx.seed * 7919 + 13)
    pairs = [gen_pair(rng, i) for i in range(n_pairs)]

    def one(i):
        F, S, meta = pairs[i]
        cf_, fo = _replay(binp, F, d, "%d_f" % i)
        cs_, so = _replay(binp, S, d, "%d_s" % i)
        return cf_, fo, cs_, so

    with ThreadPoolExecutor(max_workers=10) as ex:
        results = list(ex.map(one, range(len(pairs))))
    items, flat = [], []
    oracle_bad = []
    for i, ((F, S, meta), (cf_, fo, cs_, so)) in enumerate(zip(pairs, results)):
        items += [cf_, cs_]
        F2, S2 = dict(F, obs=fo), dict(S, obs=so)
        flat += [(F2, meta, "failing"), (S2, meta, "counterfactual")]
        probs = oracle(F, S, fo, so, meta)
        if probs:
            oracle_bad.append((i, probs))
    per = 20
    v = wc.HEADER
    for k in range(0, len(items), per):
        v += "Definition cases_%d : list wcase :=\n [ %s ].\n" % (k // per, ";\n   ".join(items[k:k + per]))
    vfile = os.path.join(d, "C02_engine_cases.v")
    with open(vfile, "w") as f:
        f.write(v)
    res, nshards = wc.shard_eval(ctx, "C02_engine", vfile, [("corr_bad", "bad_indices case_model_ok {c} 0")], per=per)
    return {"pairs": pairs, "flat": flat, "corr_bad": res["corr_bad"], "oracle_bad": oracle_bad, "results": results, "shards": nshards}


def real_side_by_side(ctx, n):
    binp, out = ctx.harness_build("engineconf")
    if binp is None:
        return {"build_failed": out}
    d = os.path.join(vlib.BUILD, "cases", "C02_engine")
    os.makedirs(d, exist_ok=True)
    outp = os.path.join(d, "engineconf.json")
    rc, out = vlib.sh([binp, "-seed", str(ctx.seed), "-n", str(n), "-out", outp], timeout=600)
    if rc != 0:
        raise RuntimeError("engineconf failed: " + out[-1500:])
    return json.load(open(outp))

"""C04 - each image-up-to-layer view equals the OCI overlay of its layers."""
import json
import os
import re
import shutil
from concurrent.futures import ThreadPoolExecutor

import vlib

LEVEL = "proof"
PROPS = "Image/Props_C04.v"
COQ_FILES = ["Lib/SortSearch.v", "Image/PathTree.v", "Image/PathTreeProofs.v", "Image/PathMap.v", "Image/Fill.v", "Image/Overlay.v",
             "Image/ImageCases.v", "Image/ViewEq.v", "Image/Witnesses.v", "Image/FillProofs.v", "Image/FoldProofs.v", "Image/Bounded.v",
             "Image/BoundedProofs.v", "Image/DomainP.v", "Image/ViewProofs.v", "Image/PruneProofs.v", "Image/ListingProofs.v", "Image/ContentProofs.v", "Image/RequirerProofs.v", "Image/Props_C04.v"]
PT_CORR = "pathtree.Node Insert/Get/GetChildren/Remove/Walk (Go) vs Image.PathTree trie (Coq, vm_compute); oracle: Image.PathMap finite map"
CORR = ("image.FromV1Image + ChainLayer.FS Stat/Open+Read/ReadDir/fs.WalkDir (Go) vs Image.Fill load/stat/read/readdir/walk_fs "
        "(Coq, vm_compute)")
KNOWN_FILE = os.path.join(vlib.VERIF, "KNOWN_FINDINGS.d", "C04.json")

META = {
    "technique": "Coq: executable model of pathtree + FromV1Image (fill, inWhiteoutDir, populate, prune) and of the reads; "
                 "independent OCI overlay spec; refinement proof of the path tree to a finite map; refutation witnesses by "
                 "vm_compute; vm_compute correspondence against the real code on generated in-memory images; spec oracle on the domain D",
    "level_text": "PROVED (Coq, all sizes): (1) pathtree_refines_map: Insert/Get/GetChildren/Walk/Remove incl. its pruning, all trees and "
                  "paths. (2) On the domain Dp (DomainP.v: directories, regular files below the size limit, plain whiteouts and symbolic links kept inside the root, a link being an entry like a file, not followed; relative "
                  "names in any spelling; per layer distinct paths, explicit parent entries first, nothing below a whiteout target or file "
                  "of the same layer; no re-creation of a deleted/replaced directory that had older contents; any history), for any number "
                  "of layers and members: the implementation's lookup equals the OCI overlay's on kind, mode bits, size and introducing "
                  "layer in every view before the final pruning and in every view but the last after it under any requirer "
                  "(view_lookup_newest, spec_lookup_newest, view_eq_overlay_on_Dp_unpruned, view_eq_overlay_on_Dp), and in EVERY view "
                  "with the default requirer when prune_safe_p holds and the image has no links (final_prune_only_whiteouts_on_Dp, view_eq_overlay_on_Dp_all_views); "
                  "ReadDir of every existing path lists exactly the overlay's children (view_listing_eq_overlay_on_Dp_unpruned; with the "
                  "default requirer for FromV1Image itself in every view: view_listing_eq_overlay_on_Dp); a regular file of the overlay "
                  "is read back with the overlay's content before the final pruning (view_content_eq_overlay_on_Dp_unpruned_partial, "
                  "on Dp and Dc); under ANY requirer, images without links, the non-directory entries of the last view are exactly the "
                  "overlay's entries the requirer accepts and nothing else appears (requirer_only_removes_nonrequired_on_Dp; "
                  "directories: unchanged or gone); for images WITH links the accepted non-directory entries of the last view are kept "
                  "and values only disappear (last_view_with_links_on_Dp_partial). "
                  "(3) view_eq_overlay_on_D_bounded_partial: lookups and listings for every image of two small-scope families (with "
                  "links and implicit parents) by vm_compute. (4) structural lemmas for all images (view_is_fold_of_fills, "
                  "fill_never_overwrites, ...). ORACLE-CHECKED ONLY (not proved): everything in D / D_weak outside Dp and the bounded "
                  "families (symbolic links, implicit parents), WalkDir equality, content after the final pruning, which directories vanish under a path "
                  "requirer, the squashed unpack. REFUTED on the current code by machine-checked witnesses replayed on every run: "
                  "opaque whiteouts, delete+re-create in one layer and across layers, absolute names, implicit-parent modes, nested "
                  "directory vanishing after whiteout, requirer deleting content of earlier views, order-dependent pruning; two defects "
                  "(deep whiteout leak, directory replaced by file) were repaired in /repo, their witnesses run first as a regression corpus. "
                  "On every run the model is compared with the real code on all generated images, the spec is evaluated on the real "
                  "code's own output for every image inside D / D_weak, and the real pathtree is compared with the trie model and an "
                  "independent finite-map spec on generated operation sequences.",
    "level_note": "Trusted: Coq kernel + vm_compute; the Go harness (tar writing with archive/tar, image assembly with "
                  "go-containerregistry tarball/mutate, error classification by errors.Is); Go map iteration order is modelled by one "
                  "fixed order and an order-sensitivity test (cases that are order sensitive are compared on success/failure only); "
                  "mutate.Extract/UnpackSquashed and the tar codec are not modelled (oracle only, images without links); symlink "
                  "following is claimed only up to 3 hops (C17 covers the resolver).",
    "design_ref": "DESIGN.md section 5 C04",
}

THEOREMS = None  # filled from the Props file


def _cases_header(txt):
    return txt[:txt.index("Definition cases_0")] if "Definition cases_0" in txt else txt


def _eval_shards(ctx, tag, vfile, per, nshards=14, extra=""):
    """Split the chunk definitions of a harness cases file over parallel coqc processes."""
    txt = open(vfile).read()
    header = _cases_header(txt)
    chunks = re.findall(r"(Definition (cases_\d+) : list icase :=\n.*?\]\.\n)", txt, re.S)
    if not chunks:
        return [], [], {"in_domain": 0, "in_strict": 0, "order_sensitive": 0, "in_proved": 0, "sensitive_indices": []}
    groups = [chunks[k::nshards] for k in range(nshards)]
    idx_groups = [list(range(len(chunks)))[k::nshards] for k in range(nshards)]

    def one(g):
        if not groups[g]:
            return [], [], [0, 0, 0, 0], []
        body = "".join(b for b, _ in groups[g])
        allc = " ++ ".join(n for _, n in groups[g])
        v = header + "From Scalibr Require Import Image.DomainP.\n" + body + (
            "Definition shard := %s.\n"
            "Definition corr_bad := Eval vm_compute in bad_indices case_model_ok shard 0.\nPrint corr_bad.\n"
            "Definition spec_bad := Eval vm_compute in bad_indices case_spec_ok shard 0.\nPrint spec_bad.\n"
            "Definition counts := Eval vm_compute in [length (filter in_domain shard); length (filter in_strict_domain shard); "
            "length (filter order_sensitive shard); length (filter (fun c => Dp (c_cfg c) (c_img c)) shard)].\nPrint counts.\n"
            "Definition sens_idx := Eval vm_compute in bad_indices (fun c => negb (order_sensitive c)) shard 0.\nPrint sens_idx.\n" % allc)
        rc, out = ctx.run_cases("C04_%s_shard_%d" % (tag, g), v, timeout=3000)
        cb = vlib.parse_printed_list(out, "corr_bad")
        sb = vlib.parse_printed_list(out, "spec_bad")
        cn = vlib.parse_printed_list(out, "counts")
        sn = vlib.parse_printed_list(out, "sens_idx")
        if rc != 0 or cb is None or sb is None or cn is None or sn is None:
            raise RuntimeError("cases shard %d failed: %s" % (g, out[-1500:]))
        # local index -> global index

        def glob(i):
            return idx_groups[g][i // per] * per + (i % per)
        return [glob(i) for i in cb], [glob(i) for i in sb], cn, [glob(i) for i in sn]

    corr, spec, cn, sens = [], [], [0, 0, 0, 0], []
    with ThreadPoolExecutor(max_workers=nshards) as ex:
        for cb, sb, c, sn in ex.map(one, range(nshards)):
            corr += cb
            spec += sb
            sens += sn
            cn = [a + b for a, b in zip(cn, c)]
    for g in range(nshards):
        for ext in (".vo", ".vok", ".vos", ".glob"):
            try:
                os.remove(os.path.join(vlib.BUILD, "cases", "C04_%s_shard_%d%s" % (tag, g, ext)))
            except FileNotFoundError:
                pass
    return sorted(corr), sorted(spec), {"in_domain": cn[0], "in_strict": cn[1], "order_sensitive": cn[2], "in_proved": cn[3],
                                        "sensitive_indices": sorted(sens)}


def _run_harness(ctx, binp, tag, args):
    d = os.path.join(vlib.BUILD, "cases")
    os.makedirs(d, exist_ok=True)
    vfile = os.path.join(d, "C04_%s.v" % tag)
    side = os.path.join(d, "C04_%s.jsonl" % tag)
    tmp = os.path.join(vlib.BUILD, "tmp_C04_%s_%d" % (tag, os.getpid()))
    os.makedirs(tmp, exist_ok=True)
    env = dict(os.environ)
    env["TMPDIR"] = tmp
    rc, out = vlib.sh([binp, "-out", vfile, "-jsonl", side] + args, timeout=3000, env=env)
    shutil.rmtree(tmp, ignore_errors=True)
    if rc != 0:
        raise RuntimeError("harness failed (%s): %s" % (tag, out[-2000:]))
    cases = [json.loads(l) for l in open(side)]
    return vfile, cases


def strip_obs(c):
    return {k: c[k] for k in ("stream", "layers", "hist", "cfg", "probes", "unpack") if k in c}


def describe(c):
    d = strip_obs(c)
    d["observed"] = {"load_err": c.get("load_err"), "views": c.get("views"), "unpacked": c.get("unpacked"),
                     "unpack_err": c.get("unpack_err")}
    return d


def _clean_rel(name):
    import posixpath
    c = posixpath.normpath(name) if name else "."
    c = c.lstrip("/")
    return c


def nontrivial(c):
    """DESIGN.md section 14: >= 2 non-empty layers and at least one whiteout, replacement or implicit parent."""
    nonempty = [l for l in c["layers"] if l]
    if len(nonempty) < 2:
        return False
    seen = set()
    for l in c["layers"]:
        here = set()
        dirs = set()
        for e in l:
            p = _clean_rel(e["name"])
            b = p.rsplit("/", 1)[-1]
            if b.startswith(".wh."):
                return True
            if e["kind"] == "dir":
                dirs.add(p)
            here.add(p)
        for p in here:
            if p in seen:
                return True
            par = p.rsplit("/", 1)[0] if "/" in p else None
            if par is not None and par not in dirs:
                return True
        seen |= here
    return False


def known_replay(ctx, binp, pa):
    """Replay every known finding on the implementation; returns list of (entry, ok)."""
    vfile, cases = _run_harness(ctx, binp, "known", ["-replay", KNOWN_FILE])
    txt = open(vfile).read()
    v = txt + ("Definition known := Eval vm_compute in map (fun c => [case_model_ok c; case_spec_ok_unrestricted c; in_domain c; "
               "in_strict_domain c; order_sensitive c; case_spec_ok c]) cases.\nPrint known.\n")
    rc, out = ctx.run_cases("C04_known_eval", v)
    m = re.search(r"known\s*=\s*(\[.*?\])\s*:\s*list", out, re.S)
    if rc != 0 or not m:
        raise RuntimeError("known-findings evaluation failed: " + out[-1500:])
    rows = re.findall(r"\[((?:true|false)(?:;\s*(?:true|false))*)\]", m.group(1))
    rows = [[x.strip() == "true" for x in r.split(";")] for r in rows]
    all_entries = json.load(open(KNOWN_FILE))
    res = []
    for e, c, r in zip(all_entries, cases, rows):
        model_ok, spec_unres, in_dom, in_strict, order_s, spec_claimed = r
        if e.get("status", "known") == "fixed":
            # regression corpus: the witness of a repaired defect must now satisfy the full spec
            if not spec_unres:
                ctx.violation({"kind": "spec-failure", "regression_of": e["id"], "fix_commit": e.get("fix_commit"),
                               "case": describe(c),
                               "explanation": "the witness of a defect that was fixed in /repo fails the OCI overlay spec again"})
            elif not model_ok:
                ctx.corr_ok = False
                ctx.violation({"kind": "correspondence-broken", "correspondence": CORR, "first_mismatch": describe(c),
                               "regression_of": e["id"],
                               "explanation": "model and implementation disagree on the regression witness"}, nofail=True)
            res.append((e["id"] + " (fixed, regression witness)", spec_unres and model_ok))
            continue
        if e.get("status", "known") != "known":
            continue
        excl = e.get("oracle_exclusion", "D_weak")
        if e.get("kind") == "order":
            still = order_s and c.get("distinct_outcomes", 1) >= 2
        else:
            still = not spec_unres
        excluded = {"D_weak": not in_dom, "D_strict": not in_strict, "lenient_reads": True,
                    "order_sensitive": order_s}[excl]
        ok = model_ok and still and excluded and spec_claimed
        if ok:
            ctx.print_known(e)
        else:
            ctx.corr_ok = False
            ctx.violation({"kind": "stale-known-finding", "finding": e["id"], "stale_theorem": e["refuted_theorem"],
                           "model_agrees_with_code": model_ok, "witness_still_fails_on_code": still,
                           "outside_claimed_domain": excluded, "oracle_quiet_on_it": spec_claimed,
                           "case": describe(c),
                           "explanation": "a listed witness no longer behaves as the refutation theorem says (the model "
                                          "still predicts the failure): the theorems are no longer tied to the code"},
                          nofail=True)
        res.append((e["id"], ok))
    return res


def pathtree_stream(ctx, binp, n):
    """Operation sequences on the real pathtree.Node: trie model (correspondence) and finite-map spec (oracle)."""
    d = os.path.join(vlib.BUILD, "cases")
    vfile = os.path.join(d, "C04_pt.v")
    side = os.path.join(d, "C04_pt.jsonl")
    per = 50
    rc, out = vlib.sh([binp, "-pathtree", str(n), "-per", str(per), "-seed", str(ctx.seed), "-out", vfile, "-jsonl", side], timeout=600)
    if rc != 0:
        raise RuntimeError("pathtree harness failed: " + out[-1500:])
    cases = [json.loads(l) for l in open(side)]
    txt = open(vfile).read()
    header = txt[:txt.index("Definition cases_0")]
    chunks = re.findall(r"(Definition (cases_\d+) : list pcase :=\n.*?\]\.\n)", txt, re.S)
    nsh = 8
    groups = [chunks[k::nsh] for k in range(nsh)]
    idx = [list(range(len(chunks)))[k::nsh] for k in range(nsh)]

    def one(g):
        if not groups[g]:
            return [], []
        v = header + "".join(b for b, _ in groups[g]) + (
            "Definition shard := %s.\n"
            "Definition corr_bad := Eval vm_compute in pbad_indices pcase_model_ok shard 0.\nPrint corr_bad.\n"
            "Definition spec_bad := Eval vm_compute in pbad_indices pcase_spec_ok shard 0.\nPrint spec_bad.\n"
            % " ++ ".join(nm for _, nm in groups[g]))
        rc, out = ctx.run_cases("C04_pt_shard_%d" % g, v, timeout=1200)
        cb = vlib.parse_printed_list(out, "corr_bad")
        sb = vlib.parse_printed_list(out, "spec_bad")
        if rc != 0 or cb is None or sb is None:
            raise RuntimeError("pathtree shard %d failed: %s" % (g, out[-1500:]))
        gl = lambda i: idx[g][i // per] * per + (i % per)
        return [gl(i) for i in cb], [gl(i) for i in sb]

    corr, spec = [], []
    with ThreadPoolExecutor(max_workers=nsh) as ex:
        for cb, sb in ex.map(one, range(nsh)):
            corr += cb
            spec += sb
    ctx.log("pathtree: %d sequences, corr_bad=%d spec_bad=%d" % (len(cases), len(corr), len(spec)))
    for i in sorted(spec)[:3]:
        ctx.violation({"kind": "spec-failure", "layer": "pathtree", "case": cases[i], "case_index": i,
                       "explanation": "the real pathtree's answers differ from the finite-map specification (Image/PathMap.v) "
                                      "on this operation sequence"})
    if corr and not spec:
        ctx.corr_ok = False
        ctx.violation({"kind": "correspondence-broken", "correspondence": PT_CORR, "first_mismatch": cases[sorted(corr)[0]],
                       "mismatches": len(corr),
                       "explanation": "the trie model and the real pathtree disagree on this operation sequence"}, nofail=True)
    return {"sequences": len(cases), "operations": sum(len(c["ops"]) for c in cases), "corr_bad": len(corr), "spec_bad": len(spec)}


def run(ctx):
    global THEOREMS
    bad = ctx.gate(COQ_FILES)
    if bad:
        ctx.violation({"kind": "gate", "hits": bad}, nofail=True)
    pa = ctx.prove(PROPS, clean=(COQ_FILES[1:] if ctx.tier == "thorough" else False))
    THEOREMS = pa["theorems"]
    ctx.log("proof ok=%s obligations=%d closed=%d (%.1fs)" % (pa["ok"], pa["obligations"], pa["print_assumptions_closed"], pa["build_s"]))
    vlib.proof_coverage(ctx, pa)
    if ctx.tier == "thorough" and pa["ok"]:
        ctx.coverage["coqchk"] = ctx.coqchk(["Scalibr.Image.Props_C04"])
    binp, out = ctx.harness_build("image")
    tb = [
        "Go harness harness/cmd/image (tar writing via archive/tar; image assembly via go-containerregistry tarball.LayerFromOpener, "
        "mutate.AppendLayers, mutate.ConfigFile; errors classified with errors.Is; listings as returned)",
        "Go map iteration order: modelled by the model's own walk order; images whose pruning is order sensitive (decided by the "
        "model) are compared on load success only",
        "modelled, not verified: archive/tar codec, go-containerregistry, mutate.Extract + unpack.UnpackSquashed (oracle only, images "
        "without links), the OS file system below the extraction directory (modelled as a map)"]
    if binp is None:
        ctx.violation({"kind": "harness-build-failed", "log": out[-3000:], "correspondence": CORR,
                       "theorems_no_longer_tied_to_code": THEOREMS}, nofail=True)
        ctx.coverage["trusted_base"] = vlib.std_trusted_base(pa, tb)
        return
    known = known_replay(ctx, binp, pa)
    pt = pathtree_stream(ctx, binp, 6000 if ctx.tier == "thorough" else 700)
    n = 6000 if ctx.tier == "thorough" else 330
    per = 10
    vfile, cases = _run_harness(ctx, binp, "gen", ["-seed", str(ctx.seed), "-n", str(n), "-per", str(per)])
    ctx.log("harness ran %d cases" % len(cases))
    corr_bad, spec_bad, counts = _eval_shards(ctx, "gen", vfile, per)
    exh = None
    if ctx.tier == "thorough":
        # every 2-layer image with <= 2 members per layer over a, b, a/b x {dir, file, whiteout}: 91 x 91
        evfile, ecases = _run_harness(ctx, binp, "exh", ["-exh", "-per", "40"])
        ecorr, espec, ecounts = _eval_shards(ctx, "exh", evfile, 40)
        ctx.log("exhaustive 2x2: %d images, corr_bad=%d spec_bad=%d in_domain=%d" % (len(ecases), len(ecorr), len(espec), ecounts["in_domain"]))
        exh = {"images": len(ecases), "corr_bad": len(ecorr), "spec_bad": len(espec), "inside_D_weak": ecounts["in_domain"],
               "inside_D_strict": ecounts["in_strict"], "inside_proved_domain_Dp": ecounts["in_proved"],
               "family": "2 layers x <= 2 members over the names a, b, a/b x {directory, regular file, whiteout}, default config"}
        if espec or ecorr:
            # fold into the main verdict (indices continue after the generated cases)
            off = len(cases)
            cases = cases + ecases
            corr_bad = corr_bad + [off + i for i in ecorr]
            spec_bad = spec_bad + [off + i for i in espec]
    unstable = [i for i, c in enumerate(cases) if c.get("distinct_outcomes", 1) >= 2]
    sens = set(counts["sensitive_indices"])
    # a case whose outcome changes between loads although the model says it cannot: correspondence break
    unpredicted = [i for i in unstable if i not in sens]
    corr_bad = sorted(set(corr_bad) | set(unpredicted))
    ctx.log("corr_bad=%d spec_bad=%d in_domain=%d strict=%d proved_Dp=%d order_sensitive=%d unstable=%d" % (
        len(corr_bad), len(spec_bad), counts["in_domain"], counts["in_strict"], counts["in_proved"], counts["order_sensitive"], len(unstable)))
    # evidence
    seen = set()
    streams, nlayers, cfgs, kinds = {}, {}, {}, {}
    evals = 0
    for c in cases:
        streams[c["stream"]] = streams.get(c["stream"], 0) + 1
        nlayers[len(c["layers"])] = nlayers.get(len(c["layers"]), 0) + 1
        ck = ("requirer" if c["cfg"]["req"] is not None else "all") + ("/small-max" if c["cfg"]["max"] < 1000 else "") + \
             ("/depth%d" % c["cfg"]["depth"] if c["cfg"]["depth"] != 6 else "")
        cfgs[ck] = cfgs.get(ck, 0) + 1
        for l in c["layers"]:
            for e in l:
                b = _clean_rel(e["name"]).rsplit("/", 1)[-1]
                k = "opaque" if b == ".wh..wh..opq" else "whiteout" if b.startswith(".wh.") else e["kind"]
                kinds[k] = kinds.get(k, 0) + 1
        evals += len(c.get("views") or []) * len(c["probes"]) * 3 + len(c.get("views") or [])
        if nontrivial(c):
            seen.add(vlib.sha(strip_obs(c)))
    ctx.coverage.update({
        "evaluations": len(cases),
        "observations_compared": evals,
        "distinct_nontrivial": len(seen),
        "rule": "one case = one generated image (1-4 layers over the names a,b,c,etc,x, depth <= 4, dirs/files/links/whiteouts/opaque "
                "markers, './'-prefixed, absolute, doubled-slash and trailing-slash spellings, shuffled order, empty layers and history "
                "entries) x one Config (requirer, MaxFileBytes, MaxSymlinkDepth), loaded with the real FromV1Image and observed with "
                "Stat/Open+Read/ReadDir on every mentioned path in every chain layer + fs.WalkDir (+ UnpackSquashed on half of the "
                "default-config cases); distinct by SHA-256 of (layers, history, config, probes); non-trivial = >= 2 non-empty layers "
                "and at least one whiteout, replacement (same path in two layers) or implicit parent",
        "samples": [describe(cases[i]) for i in sorted({0, len(cases) // 2, len(cases) - 1})][:3],
        "exhaustive": False,
        "input_distribution": {"streams": streams, "layers": {str(k): v for k, v in sorted(nlayers.items())},
                               "configs": cfgs, "entry_kinds": kinds,
                               "inside_D_weak": counts["in_domain"], "inside_D_strict": counts["in_strict"],
                               "inside_proved_domain_Dp": counts["in_proved"],
                               "fraction_rejected_by_D": round(1 - counts["in_domain"] / max(1, len(cases)), 3),
                               "order_sensitive_cases": counts["order_sensitive"],
                               "load_errors": sum(1 for c in cases if c.get("load_err")),
                               "unpack_runs": sum(1 for c in cases if c.get("unpack_ran"))},
        "vm_compute_cases": len(cases),
        "pathtree_stream": pt,
        "exhaustive_small_scope": exh,
        "oracle_cases_inside_D": counts["in_domain"],
        "known_findings_checked": [k for k, ok in known if ok],
        "oracle_leniencies": [
            "L1: ReadDir on a path the spec says is absent may return an empty listing instead of not-exist (the code returns an "
            "empty listing for whiteout nodes); it must not list anything",
            "L2: in the final view restricted by a requirer, a NESTED directory (depth >= 2) with no kept file below it may be missing "
            "(pathtree.Remove prunes a directory that lost its last entry); top-level directories and directories above a kept file are claimed",
            "L3: links are followed for at most 3 hops by the oracle; lookups through a link in a parent position are not claimed"],
        "runs_disagreeing_with_themselves": len(unstable),
        "of_which_not_predicted_order_sensitive": len(unpredicted),
    })
    ctx.coverage["trusted_base"] = vlib.std_trusted_base(pa, tb)
    ctx.assumptions += [
        "Go map iteration order does not influence the views unless the model's order-sensitivity test says so (each case is loaded "
        "twice by the harness and the two outcomes are compared: %d disagreements)" % len(unstable),
        "the extraction directory is private to the run (modelled as a map from (layer, path) to content)"]
    # an unstable case that the model did not flag as order sensitive is a correspondence break
    vlib.standard_decide(ctx, pa, corr_bad, spec_bad, cases, describe, THEOREMS, CORR)


def replay(ctx, path):
    binp, out = ctx.harness_build("image")
    if binp is None:
        print(out)
        return 2
    obj = json.load(open(path))
    case = obj.get("case") or obj.get("first_mismatch") or obj.get("witness") or obj
    case = strip_obs(case) if "layers" in case else case
    tmp = os.path.join(vlib.BUILD, "cases", "C04_replay_in.json")
    json.dump(case, open(tmp, "w"))
    vfile, cases = _run_harness(ctx, binp, "replay", ["-replay", tmp])
    print("implementation:", json.dumps(describe(cases[0])["observed"])[:4000])
    v = open(vfile).read() + (
        "Definition c := match cases with x :: _ => x | [] => {| c_img := {| im_layers := []; im_hist := [] |}; "
        "c_cfg := {| cfg_max_bytes := 1; cfg_depth := 0; cfg_req := None |}; c_probes := []; c_obs := None; c_unpack := None |} end.\n"
        "Definition model := Eval vm_compute in model_obs c.\nPrint model.\n"
        "Definition verdict := Eval vm_compute in [case_model_ok c; case_spec_ok c; case_spec_ok_unrestricted c; in_domain c; "
        "in_strict_domain c; order_sensitive c].\nPrint verdict.\n")
    rc, out = ctx.run_cases("C04_replay_eval", v)
    print(out[-6000:])
    print("verdict = [model agrees with code; spec accepts code (claimed domain); spec accepts code (no domain filter); "
          "inside D_weak; inside D; order sensitive]")
    return 0

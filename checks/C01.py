"""C01 - every required file is extracted exactly once, and nothing else is."""
import json
import os
import sys

import vlib

sys.path.insert(0, os.path.dirname(os.path.abspath(__file__)))
import walk_common as wc  # noqa: E402

LEVEL = "proof"
PROPS = "Walk/Props_C01.v"
COQ_FILES = wc.COQ_FILES + ["Walk/Invariant.v", "Walk/FaultProofs.v", "Walk/ConfineProofs.v", "Walk/ContainProofs.v",
                            "Walk/SubdirProofs.v", "Walk/LimitProofs.v", "Walk/PathsProofs.v", "Walk/Props_C01.v"]
THEOREMS = ["walk_calls_exact", "walk_inventory_exact", "walk_status_exact", "subdir_request_equiv",
            "requested_file_direct", "requested_paths_independent", "requested_paths_exact"]

META = {
    "technique": "Coq proof over all trees (nested induction: walk = execution of a pure schedule of handleFile calls; "
                 "schedule vs. declarative path-based specification) + vm_compute correspondence of the executable model "
                 "against filesystem.Run / scalibr.Scan on generated in-memory trees",
    "level_text": "Theorems (all finite trees, all option combinations, arbitrary FileRequired/Extract callbacks and go-git / regexp / glob "
                  "oracles as functions): on fault-free trees without inode limit or cancellation the Extract calls of the engine model "
                  "are exactly the declaratively specified ones, without duplicates (walk_calls_exact), the inventory is the "
                  "attributed concatenation of what those calls returned (walk_inventory_exact), plugin statuses follow the calls "
                  "(walk_status_exact), an explicitly requested reachable sub-directory yields the whole-tree scan restricted to it "
                  "(subdir_request_equiv), an explicitly requested file is dispatched iff required (requested_file_direct), a request for several paths is the concatenation of the single-path requests (requested_paths_independent), and in general -- files and directories mixed, missing paths, cut-off on or off -- the calls of a request are exactly the specified ones (requested_paths_exact). "
                  "No domain restriction is left: the two former refutations (regex+glob both set; .gitignore in the scan root) were "
                  "repaired in /repo (commits c6e92489, 9b0c17fd, 47f6ad08); their witnesses are in the regression corpus that runs first. "
                  "Several roots: the calls of one Run are the concatenation of what each root owes (oracle; FileRequired may consult api.Stat()). "
                  "The model is tied to the code on every run by evaluating it with vm_compute on the cases the real engine was run on.",
    "level_note": "Trusted: Coq kernel + vm_compute; Go harness harness/cmd/walk (in-memory FS, fake extractors, recording collector); "
                  "go-git pattern matching, Go regexp and gobwas glob are oracles tabulated per case; names are identifiers; virtual "
                  "scan roots only (stripAllPathPrefixes not modelled).",
    "design_ref": "DESIGN.md section 5 C01",
}

DEFS = [
    ("corr_bad", "bad_indices case_model_ok {c} 0"),
    ("spec_bad", "bad_indices case_spec_ok_C01 {c} 0"),
    ("dom_idx", "bad_indices (fun w => negb (c01_domain w)) {c} 0"),
    ("base_idx", "bad_indices (fun w => negb (c01_base_domain w)) {c} 0"),
    ("paths_bad", "bad_indices case_spec_ok_C01_paths {c} 0"),
    ("paths_idx", "bad_indices (fun w => negb (c01_paths_domain w)) {c} 0"),
    ("multi_bad", "bad_indices case_spec_ok_C01_multi {c} 0"),
    ("multi_idx", "bad_indices (fun w => negb (c01_multi_domain w)) {c} 0"),
]


def nontrivial(c):
    ts = wc.tree_stats(c)
    return ts["dirs_below_root"] >= 1 and len(c.get("req", [])) >= 1 and len(wc.options_active(c)) >= 1


def describe(c):
    return wc.strip_obs(c)


def run(ctx):
    bad = ctx.gate(COQ_FILES)
    if bad:
        ctx.violation({"kind": "gate", "hits": bad}, nofail=True)
    pa = ctx.prove(PROPS, clean=(COQ_FILES[1:] if ctx.tier == "thorough" else False))
    ctx.log("proof ok=%s obligations=%d closed=%d" % (pa["ok"], pa["obligations"], pa["print_assumptions_closed"]))
    vlib.proof_coverage(ctx, pa)
    ctx.coverage["trusted_base"] = vlib.std_trusted_base(pa, wc.TRUSTED)
    n = 6000 if ctx.tier == "thorough" else 700
    per = 100 if ctx.tier == "thorough" else 25
    # thorough: additionally every tree with <= 5 nodes (root included; ordered listings; names a, b, .gitignore) x every
    # combination of 7 boolean options
    extra = ["-exhaustive", "-maxnodes", "4"] if ctx.tier == "thorough" else []
    cases, vfile, binp = wc.build_and_run(ctx, "C01", n, extra, per=per)
    if cases is None:
        ctx.violation({"kind": "harness-build-failed", "log": vfile[-3000:], "correspondence": wc.CORR_NAME,
                       "theorems_no_longer_tied_to_code": THEOREMS}, nofail=True)
        return
    ctx.log("harness ran %d cases" % len(cases))
    res, nshards = wc.shard_eval(ctx, "C01", vfile, DEFS, per=per)
    corr_bad, spec_bad = res["corr_bad"], sorted(set(res["spec_bad"] + res["paths_bad"] + res["multi_bad"]))
    in_dom, in_base, in_paths = set(res["dom_idx"]), set(res["base_idx"]), set(res["paths_idx"])
    in_multi = set(res["multi_idx"])
    ctx.log("corr_bad=%d spec_bad=%d in_D=%d in_base=%d paths_dom=%d multi_dom=%d shards=%d" %
            (len(corr_bad), len(spec_bad), len(in_dom), len(in_base), len(in_paths), len(in_multi), nshards))

    # known findings: replay each witness on the implementation
    stale = []
    for e in ctx.known_findings():
        coq_case, impl = wc.replay_witness(ctx, binp, e["witness"], e["id"])
        if coq_case is None:
            raise RuntimeError("witness replay failed: " + str(impl)[-1500:])
        rc, out = wc.eval_single(ctx, "C01_known_" + e["id"].replace("-", "_"), coq_case, [
            ("k_model", "case_model_ok w"), ("k_base", "c01_base_domain w"), ("k_spec", "c01_spec_on_obs w"),
            ("k_dom", "c01_domain w")])
        km, kb, ks, kd = (wc.printed_bool(out, x) for x in ("k_model", "k_base", "k_spec", "k_dom"))
        if None in (km, kb, ks, kd):
            raise RuntimeError("known-finding evaluation failed: " + out[-1500:])
        if kb and not ks and km and not kd:
            ctx.print_known(e)                # still fails, model reproduces it, and it lies outside D
        else:
            stale.append({"id": e["id"], "refuted_theorem": e.get("refuted_theorem"), "model_reproduces": km,
                          "witness_in_statement_domain": kb, "spec_holds_on_implementation": ks, "inside_D": kd})
    for s in stale:
        ctx.violation({"kind": "known-finding-stale", "entry": s, "correspondence": wc.CORR_NAME,
                       "explanation": "the listed witness no longer fails on the implementation the way the model and the "
                                      "_refuted theorem say; theorem named in entry is stale"}, nofail=True)

    # evidence
    seen = set()
    for c in cases:
        if nontrivial(c):
            seen.add(vlib.sha(wc.canonical_input(c)))
    refuted_outside_D = [i for i in in_base if i not in in_dom]
    ctx.coverage.update({
        "evaluations": len(cases),
        "distinct_nontrivial": len(seen),
        "rule": "a case = tree(s) + options + FileRequired/Extract tables run through filesystem.Run and scalibr.Scan; distinct by "
                "SHA-256 of the canonical input; non-trivial when the tree has >= 1 directory below the root, >= 1 file some "
                "extractor requires and >= 1 skip rule/option (skip list, regex, glob, gitignore, sub-dir cut-off, requested "
                "paths, symlink reading, size limit) is active",
        "samples": [describe(cases[i]) for i in sorted({3, 4, min(len(cases) - 1, 800), min(len(cases) - 1, 900)}) if i < len(cases)],
        "exhaustive": False,
        "exhaustive_small_scope": (("all %d (tree, options) pairs: every tree with <= 5 nodes (root included, ordered listings, names "
                                    "a / b / .gitignore, files or directories) x the 2^7 combinations of skip list, regex, glob, gitignore, "
                                    "size limit, requested path, sub-directory cut-off (cut-off only with a requested path)")
                                   % sum(1 for c in cases if c["stream"] == "exhaustive")) if ctx.tier == "thorough" else "thorough tier only",
        "input_distribution": {
            "streams": wc.histogram(c["stream"] for c in cases),
            "nodes": wc.histogram(min(wc.tree_stats(c)["nodes"] // 5 * 5, 40) for c in cases),
            "options_active": wc.histogram(len(wc.options_active(c)) for c in cases),
            "option_frequency": wc.histogram(o for c in cases for o in wc.options_active(c)),
            "extractors": wc.histogram(len(c["exts"]) for c in cases),
            "whole_tree_statement_domain": len(in_base), "inside_D": len(in_dom),
            "rejected_by_D": len(refuted_outside_D), "requested_path_oracle_domain": len(in_paths),
            "multi_root_oracle_domain": len(in_multi),
            "store_absolute_path": sum(1 for c in cases if c.get("store_abs")),
            "on_disk": sum(1 for c in cases if c.get("on_disk")),
            "stat_consulting_extractors": sum(1 for c in cases if c.get("stat_req")),
            "symlinks_over_limit": sum(1 for c in cases if c.get("symlinks") and c.get("max_size")),
        },
        "vm_compute_cases": len(cases),
        "oracle_claims_checked": len(in_dom) + len(in_paths) + len(in_multi),
        "explanation": "correspondence (model = implementation: visit/FileRequired/Extract trace, inventory, statuses, error class, "
                       "Scan result) on every case; the declarative spec is evaluated on the implementation's observed calls for "
                       "every case inside D (whole-tree) and for every requested-path case inside its domain",
    })
    ctx.assumptions += [
        "go-git Matcher.Match, regexp.MatchString, glob.Match are functions of their arguments (tabulated by the harness per case)",
        "file names are non-empty, contain no '/', and are not '.' or '..'; directory entries have pairwise different names (wf_tree)",
        "extractor names are unique (NoDup), as plugin.Plugin documents",
    ]
    vlib.standard_decide(ctx, pa, corr_bad, spec_bad, cases, describe, THEOREMS, wc.CORR_NAME)


def replay(ctx, path):
    binp, out = ctx.harness_build("walk")
    obj = json.load(open(path))
    case = obj.get("case") or obj.get("first_mismatch") or obj
    coq_case, impl = wc.replay_witness(ctx, binp, case, "replay")
    print("implementation:", json.dumps(impl))
    if coq_case:
        rc, out = wc.eval_single(ctx, "C01_replay", coq_case, [
            ("model", "model_obs_d (cfg_of_case w) (w_dets w) (w_roots w)"),
            ("model_eq_impl", "case_model_ok w"),
            ("spec_expected_calls", "match w_roots w with [t] => expected_calls (cfg_of_case w) t | _ => [] end"),
            ("in_D", "c01_domain w"), ("spec_ok", "case_spec_ok_C01 w"), ("paths_spec_ok", "case_spec_ok_C01_paths w"),
            ("multi_root_spec_ok", "case_spec_ok_C01_multi w"),
            ("multi_root_expected_calls", "flat_map (expected_calls (cfg_of_case w)) (w_roots w)")])
        print(out)
    return 0

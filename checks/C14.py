"""C14 - every emitted package is well-formed and convertible."""
import json
import os
import re
import vlib

LEVEL = "proof"
PROPS = "Convert/Props_C14.v"
COQ_FILES = ["Convert/Bytes.v", "Convert/Generated_PurlTypes.v", "Convert/Generated_ProtoMeta.v", "Convert/Purl.v", "Convert/Pkg.v", "Convert/Index.v",
             "Convert/Proto.v", "Convert/Sbom.v", "Convert/Cases14.v", "Convert/BytesProofs.v", "Convert/Proofs.v",
             "Convert/Props_C14.v"]
THEOREMS = ["emitted_types_valid", "valid_type_case_insensitive",
            "norm_idempotent", "purl_roundtrip_idempotent", "purl_roundtrip_accepts", "purl_roundtrip_rejects_invalid_type",
            "index_returns_package", "index_get_specific_exact", "index_get_all_of_type_exact",
            "proto_preserves", "proto_preserves_inventory", "every_emitted_metadata_type_has_proto_case_refuted",
            "every_emitted_metadata_type_has_proto_case_on_D", "metadata_exclusions_exact", "spdx_preserves_on_D", "spdx_exact_skips",
            "spdx_locations_refuted", "cdx_preserves", "sbom_records_ignore_layer_details",
            "converters_panic_iff_nil_extractor"]
FLAG_NAMES_MODEL = ["purl print/parse (packageurl-go law + validType)", "packageindex", "proto", "spdx", "cdx",
                    "setProtoMetadata oneof case"]
FLAG_NAMES_SPEC = ["non-empty name and >=1 location", "purl type accepted + print/parse idempotent",
                   "index returns the package", "proto preserves fields", "spdx preserves fields", "cdx preserves fields"]

META = {
    "technique": "Coq proofs over executable models of purl.validType / packageindex / packageToProto / ToSPDX23 / ToCDX "
                 "+ go/ast translator regenerating the purl type tables + vm_compute correspondence on packages harvested "
                 "from every offline built-in extractor over the repository fixtures",
    "level_text": "Proved (Convert/Props_C14.v): every purl type referenced by built-in extractor sources is accepted by "
                  "purl.validType (emitted_types_valid, full strength, tables regenerated from the Go "
                  "source on every run); print-then-parse is idempotent and accepted for valid types given the stated law of "
                  "packageurl-go (purl_roundtrip_idempotent, norm_idempotent proved for the concrete normal form); the package "
                  "index returns exactly the packages with that purl type and name, for all inventories "
                  "(index_returns_package, index_get_specific_exact); proto / SPDX / CycloneDX record maps preserve name, "
                  "version, locations, purl and (proto) layer details for all packages, with SPDX's skips stated exactly "
                  "(proto_preserves, spdx_preserves_on_D, spdx_exact_skips, cdx_preserves); converters panic iff a package has "
                  "no Extractor; setProtoMetadata's dispatch is modelled as the regenerated clause table "
                  "(every_emitted_metadata_type_has_proto_case_on_D / _refuted; the chosen oneof case is compared for every "
                  "harvested package). PARTIAL (exploration, not proved): 'ToPURL/Ecosystem of the 57 extractors never panic on what "
                  "they emit' and 'non-empty name, >= 1 location' are checked on the harvested packages only (fixtures, "
                  "mutated fixtures that still parse, generated SBOM documents, C03 generator dumps in the thorough tier); the field "
                  "contents inside the proto metadata messages are not modelled. Standalone extractors (Windows registry/DISM, "
                  "netports, standalone containerd) and java/pomxmlnet (network) cannot run here: their purl types and metadata "
                  "types are covered statically by the translator tables only (listed in evidence: statically_checked_only).",
    "level_note": "Trusted: Coq kernel + vm_compute; translator harness/cmd/purltypes (go/ast, ~250 lines, output is readable "
                  "data); harness harness/cmd/convert (projection of UUIDs/time stamps, position numbering of pointers); "
                  "packageurl-go ToString/FromString enter the theorems only through the hypothesis "
                  "`pparse (pstring p) = norm p`, which is validated against the real library on every harvested and "
                  "generated purl. Known findings: SPDX record mentions two locations; SBOM records carry no layer details; "
                  "dotnet/pe and chrome/extensions emit no locations; renvlock version-less cran purl; "
                  "metadata types without a result-proto case (side finding). Fixed (regression witnesses): snap in validType, "
                  "cargotoml empty package, sbom/spdx name kept on a rejected purl.",
    "design_ref": "DESIGN.md section 5 C14",
}

CASES_HEADER = ("From Coq Require Import List ZArith NArith Bool.\n"
                "From Scalibr Require Import Convert.Bytes Convert.Generated_PurlTypes Convert.Purl Convert.Pkg Convert.Index "
                "Convert.Proto Convert.Sbom Convert.Cases14.\nImport ListNotations.\n")


def translate(ctx):
    """Run the go/ast translator against the repository; returns the parsed JSON or None."""
    binp, out = ctx.harness_build("purltypes")
    if binp is None:
        return None, out
    gen = os.path.join(vlib.COQ, "theories", "Convert", "Generated_PurlTypes.v")
    gen2 = os.path.join(vlib.COQ, "theories", "Convert", "Generated_ProtoMeta.v")
    js = os.path.join(vlib.BUILD, "purltypes.json")
    before = [open(g).read() if os.path.exists(g) else "" for g in (gen, gen2)]
    rc, out = vlib.sh([binp, "-repo", vlib.REPO, "-out", gen, "-protoout", gen2, "-json", js], timeout=120)
    if rc != 0:
        return None, out
    data = json.load(open(js))
    data["generated_file_changed"] = ([open(g).read() for g in (gen, gen2)] != before)
    return data, out


def shard_and_run(ctx, vfile, prefix, per, tail_defs):
    """Split the chunk definitions of a generated cases file over parallel coqc processes.
    tail_defs(name) -> text appended after the chunk; returns list of coqc outputs (one per chunk)."""
    from concurrent.futures import ThreadPoolExecutor
    txt = open(vfile).read()
    if "Definition cases_0" not in txt:
        return []
    header = txt[:txt.index("Definition cases_0")]
    chunks = re.findall(r"(Definition (cases_\d+) : list \w+ :=\n.*?\]\.\n)(?=Definition )", txt, re.S)

    def one(k):
        body, name = chunks[k]
        rc, out = ctx.run_cases("%s_shard_%d" % (prefix, k), header + body + tail_defs(name), timeout=1500)
        if rc != 0:
            raise RuntimeError("cases shard %d failed: %s" % (k, out[-1500:]))
        return out

    with ThreadPoolExecutor(max_workers=14) as ex:
        return list(ex.map(one, range(len(chunks))))


def retranslate_guard(ctx, cases_vo):
    """Another process (e.g. bin/seedtest's exit trap: git checkout of Generated_*.v) may have replaced the generated
    table since this run translated it: translate again right before the evaluation and rebuild when it differs."""
    types, _ = translate(ctx)
    if types is not None and types["generated_file_changed"]:
        ctx.notes.append("Generated_PurlTypes.v was modified by another process during this run; regenerated and rebuilt")
        ctx.log("generated table was changed under us: regenerated, rebuilding " + cases_vo)
        rc, mout = ctx.coq_make([cases_vo])
        if rc != 0:
            raise RuntimeError("rebuild after re-translation failed: " + mout[-1500:])


def static_only(types):
    """Extractor sources that contribute purl types / metadata types to the translator tables but cannot be run here."""
    def cannot_run(f):
        return f.startswith("extractor/standalone/") or "/pomxmlnet/" in f
    purl_refs = sorted({"%s (%s)" % (r["file"], r["value"]) for r in types["refs"] if cannot_run(r["file"])})
    meta_refs = sorted({"%s (%s%s)" % (r["file"], "*" if r["pointer"] else "", r["type"].split("/")[-1])
                        for r in (types.get("proto_meta") or {}).get("metadata_refs", []) if cannot_run(r["file"])})
    return {"purl_type_references": purl_refs, "metadata_type_references": meta_refs,
            "why": "standalone extractors need Windows / a running system, java/pomxmlnet needs the network"}


def tail14(name):
    return ("Definition corr_bad := Eval vm_compute in bad_indices case_model_ok %s.\nPrint corr_bad.\n"
            "Definition corr_mask := Eval vm_compute in bad_masks model_flags %s.\nPrint corr_mask.\n"
            "Definition spec_bad := Eval vm_compute in bad_indices case_spec_ok %s.\nPrint spec_bad.\n"
            "Definition spec_mask := Eval vm_compute in bad_masks spec_flags %s.\nPrint spec_mask.\n"
            "Definition counts := Eval vm_compute in [count_pkgs %s; count_outside_D %s; count_more_than_two_locations %s].\nPrint counts.\n"
            % ((name,) * 7))


def mask_names(mask, names):
    return [n for i, n in enumerate(names) if mask >> i & 1]


def replay_witness(ctx, binp, entry):
    d = os.path.join(vlib.BUILD, "cases")
    p = os.path.join(d, "%s_witness_%s.json" % (ctx.pid, entry["id"]))
    json.dump(entry["witness"], open(p, "w"))
    rc, out = vlib.sh([binp, "-repo", vlib.REPO, "-witness", p], timeout=300)
    try:
        return json.loads(out.strip().splitlines()[-1])
    except Exception:
        return {"still_fails": None, "error": out[-800:]}


def fixed_findings(ctx):
    import glob
    out = []
    for f in sorted(glob.glob(os.path.join(vlib.VERIF, "KNOWN_FINDINGS.d", "*.json"))):
        k = json.load(open(f))
        out += [e for e in (k if isinstance(k, list) else k.get("findings", [])) if e.get("property") == ctx.pid and e.get("status") == "fixed"]
    return out


def run(ctx):
    bad = ctx.gate(COQ_FILES)
    if bad:
        ctx.violation({"kind": "gate", "hits": bad}, nofail=True)
    types, tout = translate(ctx)
    if types is None:
        ctx.violation({"kind": "translator-failed", "log": tout[-3000:], "theorems_no_longer_tied_to_code": THEOREMS}, nofail=True)
        return
    ctx.log("translator: %d declared, %d validType keys, %d emitted types (%d references)%s" % (
        len(types["declared"]), len(types["valid_keys"]), len(types["emitted"]), len(types["refs"]),
        " [generated file changed]" if types["generated_file_changed"] else ""))
    pa = ctx.prove(PROPS, clean=(COQ_FILES if ctx.tier == "thorough" else False))
    ctx.log("proof ok=%s obligations=%d closed=%d" % (pa["ok"], pa["obligations"], pa["print_assumptions_closed"]))
    vlib.proof_coverage(ctx, pa)
    if ctx.tier == "thorough" and pa["ok"]:
        chk = ctx.coqchk(["Scalibr.Convert.Props_C14"])
        ctx.coverage["coqchk"] = chk
        ctx.log("coqchk rc=%d (%.0fs)" % (chk["rc"], chk["wall_s"]))
        if chk["rc"] != 0:
            ctx.violation({"kind": "coqchk-failed", "output": chk["output_tail"], "theorems": THEOREMS}, nofail=True)
    rc, mout = ctx.coq_make(["theories/Convert/Cases14.vo"])
    if rc != 0:
        raise RuntimeError("Cases14.vo does not build: " + mout[-2000:])
    tb = vlib.std_trusted_base(pa, [
        "translator harness/cmd/purltypes: go/ast only for the Type* const declarations, the purl.Type* references under extractor/, the "
        "metadata type switch of package binary/proto and the Metadata values in extractor sources; the accepted purl types are "
        "OBSERVED by running purl.FromString of the repository under test on every declared type (and upper-case / unknown probes)",
        "Go harness harness/cmd/convert (drives the real filesystem.Run, ToPURL, Ecosystem, purl.FromString, packageindex, "
        "proto.ScanResultToProto, converter.ToSPDX23/ToCDX; strips random UUIDs, numbers package pointers by position)",
        "Section hypothesis codec_law: packageurl-go FromString(ToString p) = norm p (validated on every purl of this run)",
        "modelled, not verified: the 57 extractor-specific ToPURL/Ecosystem functions (their results are inputs of the model), "
        "setProtoMetadata, document-level SPDX/CycloneDX metadata"])
    ctx.coverage["trusted_base"] = tb
    ctx.assumptions += ["packageurl-go v0.1.2: FromString(ToString(p)) = norm p (Convert/Purl.v), checked per case",
                        "Package.Extractor is set by the core library on every emitted package"]
    binp, out = ctx.harness_build("convert")
    if binp is None:
        ctx.violation({"kind": "harness-build-failed", "log": out[-3000:], "theorems_no_longer_tied_to_code": THEOREMS}, nofail=True)
        return

    # ---- regression corpus: witnesses of FIXED findings run first and must hold at full strength
    for e in fixed_findings(ctx):
        res = replay_witness(ctx, binp, e)
        if res.get("still_fails") is False:
            ctx.coverage.setdefault("regression_witnesses_passed", []).append(e["id"])
        else:
            ctx.violation({"kind": "spec-failure", "clause": "regression: fixed finding %s is back" % e["id"], "fix_commit": e.get("fix_commit"),
                           "witness": e["witness"], "result": res,
                           "explanation": "the witness of a defect recorded as fixed fails again on the implementation"})
    # ---- known findings: replay each witness on the implementation
    known = ctx.known_findings()
    invalid_emitted_model = None
    rc, cout = ctx.run_cases("C14_tables", CASES_HEADER +
                             "Definition invalid_emitted := Eval vm_compute in filter (fun t => negb (valid_type t)) emitted_types.\n"
                             "Print invalid_emitted.\n")
    m = re.search(r"invalid_emitted\s*=\s*(.*?)\n\s*:\s", cout, re.S)
    if rc == 0 and m:
        invalid_emitted_model = ["".join(chr(int(x)) for x in re.findall(r"\d+", t)) for t in re.findall(r"\[([\d;\s]*)\]", m.group(1)) if t.strip()]
    ctx.log("model: emitted types rejected by valid_type: %s" % invalid_emitted_model)
    known_types = set()
    for e in known:
        res = replay_witness(ctx, binp, e)
        if res.get("still_fails"):
            ctx.print_known(e)
            if e["witness"].get("kind") == "emitted-purl-type-rejected":
                known_types.add(e["witness"].get("purl_type"))
        else:
            ctx.violation({"kind": "known-finding-stale", "finding": e["id"], "stale_theorem": e.get("refuted_theorem"),
                           "witness": e["witness"], "result": res,
                           "explanation": "the recorded witness no longer fails on the implementation while the Coq development "
                                          "still contains its _refuted theorem"}, nofail=True)
    # any rejected emitted type that is not a known finding: concrete violation (the type + where it is emitted)
    for t in (invalid_emitted_model or []):
        if t not in known_types:
            refs = [r for r in types["refs"] if r["value"] == t]
            ctx.violation({"kind": "spec-failure", "clause": "emitted purl type accepted by the library's own parser",
                           "purl_type": t, "emitted_by": refs,
                           "input": "pkg:%s/name@1.0" % t,
                           "explanation": "a built-in extractor references purl type %r but purl.validType does not list it: "
                                          "purl.FromString rejects the URL the extractor emits" % t})

    # ---- harvest + conversions
    d = os.path.join(vlib.BUILD, "cases")
    os.makedirs(d, exist_ok=True)
    vfile, side, summ = (os.path.join(d, "C14_cases" + x) for x in (".v", ".jsonl", "_summary.json"))
    dump = None
    if ctx.tier == "thorough":
        # C03 generators ("generated well-formed inputs"): dump at production paths, every case directory a scan root
        import shutil
        fbin, fout = ctx.harness_build("formats")
        if fbin is not None:
            dump = os.path.join(d, "C14_c03dump")
            shutil.rmtree(dump, ignore_errors=True)
            os.makedirs(os.path.join(d, "C14_c03out"), exist_ok=True)
            rc, fo = vlib.sh([fbin, "-outdir", os.path.join(d, "C14_c03out"), "-dumpdir", dump, "-seed", str(ctx.seed),
                              "-n", "60", "-mal", "20"], timeout=600)
            if rc != 0:
                ctx.notes.append("formats -dumpdir failed, C03 stream missing in this run: " + fo[-300:])
                dump = None
        else:
            ctx.notes.append("formats harness does not build, C03 stream missing in this run")
    if ctx.tier == "thorough":
        args = ["-cross", "-pergroup", "60", "-mutants", "800", "-synth", "600", "-maxpkgs", "8000", "-sbomdocs", "800",
                "-metawide", "-metaper", "4", "-metasample", "400"]
    else:
        args = ["-pergroup", "12", "-mutants", "80", "-synth", "80", "-maxpkgs", "1000", "-sbomdocs", "80"]
    rc, out = vlib.sh([binp, "-repo", vlib.REPO, "-out", vfile, "-jsonl", side, "-summary", summ, "-seed", str(ctx.seed),
                       "-types", os.path.join(vlib.BUILD, "purltypes.json")] + args + (["-c03dump", dump] if dump else []), timeout=1500)
    if dump:
        shutil.rmtree(dump, ignore_errors=True)
        shutil.rmtree(os.path.join(d, "C14_c03out"), ignore_errors=True)
    if rc != 0:
        raise RuntimeError("harness failed: " + out[-2000:])
    cases = [json.loads(l) for l in open(side)]
    summary = json.load(open(summ))
    ctx.log("harness: %d cases, %d packages, %d extractor panics" % (len(cases), summary["packages"], len(summary["panics"] or [])))
    retranslate_guard(ctx, "theories/Convert/Cases14.vo")
    outs = shard_and_run(ctx, vfile, "C14", 10, tail14)
    corr_bad, spec_bad, corr_mask, spec_mask = [], [], [], []
    counts = [0, 0, 0]
    for k, o in enumerate(outs):
        cb, sb = vlib.parse_printed_list(o, "corr_bad"), vlib.parse_printed_list(o, "spec_bad")
        cm, sm = vlib.parse_printed_list(o, "corr_mask"), vlib.parse_printed_list(o, "spec_mask")
        cn = vlib.parse_printed_list(o, "counts")
        if None in (cb, sb, cm, sm, cn):
            raise RuntimeError("cases shard %d: unparsable output: %s" % (k, o[-1500:]))
        corr_bad += [k * 10 + i for i in cb]
        spec_bad += [k * 10 + i for i in sb]
        corr_mask += cm
        spec_mask += sm
        counts = [a + b for a, b in zip(counts, cn)]
    ctx.log("corr_bad=%d spec_bad=%d (packages %d, known-unparseable (cran without version) %d, >2 locations %d)" % (
        len(corr_bad), len(spec_bad), counts[0], counts[1], counts[2]))

    def describe(c):
        return c

    # annotate
    for i, mk in zip(spec_bad, spec_mask):
        cases[i]["failed_spec_clauses"] = mask_names(mk, FLAG_NAMES_SPEC)
    for i, mk in zip(corr_bad, corr_mask):
        cases[i]["model_disagrees_on"] = mask_names(mk, FLAG_NAMES_MODEL)

    # exploration part: panics of extractor-specific functions are violations with their own replay
    conv_whats = ("ToPURL", "Ecosystem", "packageindex.New", "proto.ScanResultToProto", "converter.ToSPDX23", "converter.ToCDX")
    conv_panics = [e for e in (summary["panics"] or []) if e["what"] in conv_whats]
    for ev in conv_panics[:5]:
        how = " (metadata variant: %s)" % json.dumps(ev["metadata_mutation"]) if ev.get("metadata_mutation") else ""
        ctx.violation({"kind": "spec-failure", "clause": "%s panics on a package of extractor %s%s" % (ev["what"], ev["extractor"], how),
                       "event": ev})
    extract_panics = [e for e in (summary["panics"] or []) if e["what"] not in conv_whats]

    nontriv = summary["distinct_nontrivial_packages"]
    ctx.coverage.update({
        "evaluations": summary["packages"],
        "distinct_nontrivial": nontriv,
        "rule": "one evaluation = one package run through ToPURL, Ecosystem, FromString(String) twice, packageindex, "
                "ScanResultToProto, ToSPDX23, ToCDX (inside an inventory of <= 12 packages); distinct by SHA-256 of (name, version, "
                "locations, extractor, purl, ecosystem, layer, CPEs, annotations, source code); non-trivial when the package has a "
                "non-nil purl",
        "samples": [cases[i] for i in sorted(set([0, len(cases) // 3, len(cases) // 2, len(cases) - 1])) if i < len(cases)],
        "exhaustive": False,
        "input_distribution": {k: summary[k] for k in ("streams", "purl_types", "locations_per_package", "packages_per_extractor",
                                                         "extractors", "testdata_dirs", "extract_calls", "extract_errors",
                                                         "fixture_groups", "mutants_tried", "mutants_parsed")},
        "packages_known_unparseable_cran_without_version": counts[1],
        "packages_with_more_than_two_locations": counts[2],
        "purl_name_differs_from_package_name": summary["purl_name_differs_from_package_name"],
        "oversize_packages_left_out_of_coq_cases": summary.get("oversize_packages_left_out", 0),
        "oversize_rule": "a harvested package whose name + version + locations exceed 1500 bytes (an extractor forced onto a "
                         "binary of another extractor's testdata) is run through ToPURL/Ecosystem only and not handed to Coq",
        "c03_generator_roots_scanned": summary.get("c03_roots", 0),
        "metadata_type_to_proto_case_observed": summary.get("metadata_types"),
        "metadata_mutation_stream": summary.get("metadata_mutation"),
        "statically_checked_only": static_only(types),
        "hypotheses_validated": {"codec_law (packageurl-go FromString . ToString = norm)": summary["packages"]},
        "extract_panics_seen (C02's subject, informational)": len(extract_panics),
        "translator": {"declared": len(types["declared"]), "valid_keys": len(types["valid_keys"]), "emitted": types["emitted"],
                       "references": len(types["refs"]), "rejected_emitted_types": invalid_emitted_model},
        "partial": "ToPURL/Ecosystem no-panic and non-empty name / >=1 location are explored on harvested packages, not proved",
        "explanation": "tables regenerated from the Go source; all theorems recompiled; every harvested/mutated/synthetic inventory "
                       "evaluated by vm_compute against model and spec",
    })
    vlib.standard_decide(ctx, pa, corr_bad, spec_bad, cases, describe, THEOREMS,
                         "purl/packageindex/proto/converter (Go) vs Convert.{Purl,Index,Proto,Sbom} (Coq, vm_compute)")


def replay(ctx, path):
    binp, out = ctx.harness_build("convert")
    if binp is None:
        print(out)
        return 2
    rc, out = vlib.sh([binp, "-repo", vlib.REPO, "-replay", path], timeout=600)
    print(out)
    m = [l for l in out.splitlines() if l.startswith("coq-case: ")]
    if m:
        ctx.coq_make(["theories/Convert/Cases14.vo"])
        v = (CASES_HEADER + "Definition c : ccase := %s.\n"
             "Definition model_agrees := Eval vm_compute in model_flags c.\nPrint model_agrees.\n"
             "Definition spec_holds := Eval vm_compute in spec_flags c.\nPrint spec_holds.\n" % m[0][len("coq-case: "):])
        rc, out = ctx.run_cases("C14_replay", v)
        print("model flags   (%s):" % "; ".join(FLAG_NAMES_MODEL))
        print("spec  clauses (%s):" % "; ".join(FLAG_NAMES_SPEC))
        print(out)
    return 0

"""C08 - scan results depend only on content, not on enumeration order or root count."""
import json
import os
import sys

import vlib

sys.path.insert(0, os.path.dirname(os.path.abspath(__file__)))
import walk_common as wc  # noqa: E402

LEVEL = "proof"
PROPS = "Walk/Props_C08.v"
COQ_FILES = wc.COQ_FILES + ["Walk/Perm.v", "Walk/SortProofs.v", "Walk/PermProofs.v", "Walk/MultiProofs.v", "Walk/Props_C08.v"]
THEOREMS = ["walk_perm_invariant", "cmp_packages_total_preorder", "sorted_output_canonical", "sorted_statuses_canonical",
            "sorted_findings_canonical", "multiroot_is_union", "multiroot_statuses", "multiroot_status_order_invariant"]

META = {
    "technique": "Coq proof over all trees and all re-listings (mutual induction over the tree-permutation relation on the pure "
                 "schedule of the walk), insertion sort over the lexicographic total order of the four package sort keys, "
                 "characterisation of the multi-root loop; vm_compute correspondence against filesystem.Run / scalibr.Scan with the "
                 "harness file system's listing order as an input",
    "level_text": "Theorems: walk_perm_invariant (for every tree and every re-listing of every directory at every depth: same multiset "
                  "of Extract calls and packages, same plugin statuses up to the order of failure items; fault-free trees, no limit/"
                  "cancel), sorted_output_canonical + cmp_packages_total_preorder (sortResults emits a CmpPackages-sorted list whose "
                  "sequence of sort keys depends on the multiset only), sorted_statuses_canonical. sorted_findings_canonical (findings sorted by reference, then extra). filesystem.Run over any number of roots reports exactly the union of the single-root runs and one status per plugin, which is the one the Extract calls of all roots together dictate and does not depend on the order of the roots (multiroot_is_union, multiroot_statuses, multiroot_status_order_invariant; full statements: the duplication defect was repaired in /repo commit 0811a249, its witness is in the regression corpus). Go map-iteration order: each generated case is run three times and must give "
                  "the identical observation (search, not proof).",
    "level_note": "Trusted: Coq kernel + vm_compute; harness (listing order per directory is chosen by the PRNG and given to the model); "
                  "slices.SortFunc is modelled as insertion sort - ties under CmpPackages are packages with identical sort keys, "
                  "so the observable key sequence is the same for any correct sort; plugin status sort is by name only (ties when roots "
                  "duplicate statuses: <= 12 elements, where pdqsort is insertion sort). Findings come from fake detectors given to scalibr.Scan; "
                  "ties under cmpFindings carry identical (reference, extra) keys.",
    "design_ref": "DESIGN.md section 5 C08",
}

DEFS = [
    ("corr_bad", "bad_indices case_model_ok {c} 0"),
    ("spec_bad", "bad_indices case_spec_ok_C08 {c} 0"),
    ("group_bad", "group_bad {c}"),
    ("multi_idx", "bad_indices (fun w => negb (c08_multi_base w)) {c} 0"),
    ("multidom_idx", "bad_indices (fun w => negb (c08_multi_domain w)) {c} 0"),
    ("unionfail_idx", "bad_indices (fun w => negb (c08_multi_base w) || c08_union_on_obs w) {c} 0"),
]


def nontrivial(c):
    ts = wc.tree_stats(c)
    return ts["dirs_below_root"] >= 1 and len(c.get("req", [])) >= 1 and ts["wide"]


def describe(c):
    return wc.strip_obs(c)


def run(ctx):
    bad = ctx.gate(COQ_FILES)
    if bad:
        ctx.violation({"kind": "gate", "hits": bad}, nofail=True)
    pa = ctx.prove(PROPS, clean=(COQ_FILES[1:] if ctx.tier == "thorough" else False))
    ctx.log("proof ok=%s obligations=%d closed=%d" % (pa["ok"], pa["obligations"], pa["print_assumptions_closed"]))
    vlib.proof_coverage(ctx, pa)
    ctx.coverage["trusted_base"] = vlib.std_trusted_base(pa, wc.TRUSTED)
    n = 3000 if ctx.tier == "thorough" else 400
    cases, vfile, binp = wc.build_and_run(ctx, "C08", n)
    if cases is None:
        ctx.violation({"kind": "harness-build-failed", "log": vfile[-3000:], "correspondence": wc.CORR_NAME,
                       "theorems_no_longer_tied_to_code": THEOREMS}, nofail=True)
        return
    ctx.log("harness ran %d cases" % len(cases))
    res, nshards = wc.shard_eval(ctx, "C08", vfile, DEFS)
    # group_bad indices are chunk-relative like the others
    res["group_bad"] = res["group_bad"]
    corr_bad = res["corr_bad"]
    spec_bad = sorted(set(res["spec_bad"]) | set(res["group_bad"]))
    multi, multidom, unionfail = set(res["multi_idx"]), set(res["multidom_idx"]), set(res["unionfail_idx"])
    ctx.log("corr_bad=%d spec_bad=%d (group_bad=%d) multiroot=%d in_D=%d union_fails_outside_D=%d shards=%d" %
            (len(corr_bad), len(spec_bad), len(res["group_bad"]), len(multi), len(multidom), len(unionfail - multidom), nshards))

    stale = []
    for e in ctx.known_findings():
        coq_case, impl = wc.replay_witness(ctx, binp, e["witness"], e["id"])
        if coq_case is None:
            raise RuntimeError("witness replay failed: " + str(impl)[-1500:])
        rc, out = wc.eval_single(ctx, "C08_known_" + e["id"].replace("-", "_"), coq_case, [
            ("k_model", "case_model_ok w"), ("k_base", "c08_multi_base w"), ("k_union", "c08_union_on_obs w"),
            ("k_dom", "c08_multi_domain w"), ("k_once", "c08_status_once_on_obs w")])
        km, kb, ku, kd, ko = (wc.printed_bool(out, x) for x in ("k_model", "k_base", "k_union", "k_dom", "k_once"))
        if None in (km, kb, ku, kd, ko):
            raise RuntimeError("known-finding evaluation failed: " + out[-1500:])
        if kb and not ku and not ko and km and not kd:
            ctx.print_known(e)
        else:
            stale.append({"id": e["id"], "refuted_theorem": e.get("refuted_theorem"), "model_reproduces": km,
                          "witness_in_statement_domain": kb, "union_holds_on_implementation": ku,
                          "one_status_per_plugin_on_implementation": ko, "inside_D": kd})
    for s in stale:
        ctx.violation({"kind": "known-finding-stale", "entry": s, "correspondence": wc.CORR_NAME,
                       "explanation": "the listed witness no longer fails on the implementation the way the model and the "
                                      "_refuted theorem say; theorem named in entry is stale"}, nofail=True)

    seen = set()
    for c in cases:
        if nontrivial(c):
            seen.add(vlib.sha(wc.canonical_input(c)))
    groups = {}
    for c in cases:
        if c.get("group"):
            groups.setdefault(c["group"], 0)
            groups[c["group"]] += 1
    ctx.coverage.update({
        "evaluations": len(cases) * 3,
        "distinct_nontrivial": len(seen),
        "rule": "a case = tree(s) with a concrete listing order per directory + options + tables, run 3x through filesystem.Run and "
                "scalibr.Scan (map-iteration order re-randomised each time); permutation groups hold one content in 5 listings; "
                "distinct by SHA-256 of the canonical input (listing order included); non-trivial when the tree has >= 1 directory "
                "below the root, >= 1 required file and some directory with >= 2 entries",
        "samples": [describe(cases[i]) for i in sorted({0, 5, 6, len(cases) - 1}) if i < len(cases)],
        "exhaustive": False,
        "input_distribution": {
            "streams": wc.histogram(c["stream"] for c in cases),
            "roots": wc.histogram(len(c["roots"]) for c in cases),
            "nodes": wc.histogram(min(wc.tree_stats(c)["nodes"] // 5 * 5, 40) for c in cases),
            "permutation_groups": len(groups), "listings_per_group": 5,
            "multiroot_cases_in_statement_domain": len(multi), "multiroot_inside_D": len(multidom),
            "multiroot_rejected_by_D": len(multi - multidom),
        },
        "vm_compute_cases": len(cases),
        "relational_checks": sum(v - 1 for v in groups.values()),
        "explanation": "correspondence on every case; oracle: every listing of a group must be equivalent to the group's first "
                       "listing (multiset of calls/packages, statuses up to item order, identical sorted Scan key sequence), every "
                       "Scan output must be sorted, multi-root runs inside D must be the union of the per-root specifications",
    })
    ctx.assumptions += [
        "slices.SortFunc / sort.Strings produce a sorted permutation (modelled as insertion sort; ties carry identical keys)",
        "go-git / regexp / glob are functions (tabulated per case)",
    ]
    vlib.standard_decide(ctx, pa, corr_bad, spec_bad, cases, describe, THEOREMS, wc.CORR_NAME)


def replay(ctx, path):
    binp, out = ctx.harness_build("walk")
    obj = json.load(open(path))
    case = obj.get("case") or obj.get("first_mismatch") or obj
    coq_case, impl = wc.replay_witness(ctx, binp, case, "replay")
    print("implementation:", json.dumps(impl))
    if coq_case:
        rc, out = wc.eval_single(ctx, "C08_replay", coq_case, [
            ("model", "model_obs_d (cfg_of_case w) (w_dets w) (w_roots w)"),
            ("model_eq_impl", "case_model_ok w"),
            ("scan_sorted_ok", "scan_sorted (w_obs w)"),
            ("multi_in_D", "c08_multi_domain w"), ("union_ok", "c08_union_on_obs w"), ("spec_ok", "case_spec_ok_C08 w")])
        print(out)
    return 0

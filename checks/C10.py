"""C10 - resource limits and cancellation are hard bounds."""
import importlib.util
import json
import os
import sys

import vlib

sys.path.insert(0, os.path.dirname(os.path.abspath(__file__)))
import walk_common as wc  # noqa: E402

LEVEL = "proof"
PROPS = "Walk/Props_C10.v"
COQ_FILES = wc.COQ_FILES + ["Walk/Invariant.v", "Walk/Faults.v", "Walk/FaultProofs.v", "Walk/ConfineProofs.v",
                            "Walk/ContainProofs.v", "Walk/LimitProofs.v", "Walk/SubdirProofs.v", "Walk/PathsProofs.v", "Walk/Props_C10.v"]
THEOREMS = ["inode_bound", "inode_fail_iff", "size_bound", "cancel_no_new_file", "cancel_inside_extract_same_file",
            "cancel_reports_failure", "limits_never_panic", "size_bound_per_root"]

META = {
    "technique": "Coq proof (trace invariants preserved by every handleFile call, lifted through the whole engine; budgeted execution "
                 "of the walk's schedule) + vm_compute correspondence against filesystem.Run / scalibr.Scan with limits drawn "
                 "around the number of visits a tree needs and every cancellation point; image half: checks/part_C10_image.py",
    "level_text": "Theorems (all trees, roots, faults, options): never more AfterInodeVisited calls than MaxInodes (inode_bound); the "
                  "scan fails with the limit error exactly when the tree needs more visits than the limit (inode_fail_iff); no file "
                  "larger than MaxFileSize reaches Extract (size_bound; with several roots judged in the file's own root: size_bound_per_root); once the context is cancelled by the k-th visit no Extract "
                  "starts on any later file (cancel_no_new_file), cancelled inside an Extract only the current file's remaining "
                  "extractors still run (cancel_inside_extract_same_file); cancellation is reported as failure exactly when visits "
                  "remained (cancel_reports_failure). Run never panics for any trees, faults, limits, cancellation points, requested paths "
                  "and roots, with or without UseGitignore (limits_never_panic; the former gitignore-stack panic was repaired in "
                  "/repo commit 3fdcaf3f and its witnesses are part of the regression corpus). Image half (layer_file_limit): part_C10_image; plugin loops (cancel_runs_no_further_plugin, ...): part_C10_plugins.",
    "level_note": "Trusted: Coq kernel + vm_compute; harness (cancellation through a context the stats hook / fake extractor cancels "
                  "at a chosen call). The per-plugin context checks of standalone.Run and detector.Run ('runs no further plugin') "
                  "are the plugin-loop half: checks/part_C10_plugins.py (Detect/Props_C10_plugins.v).",
    "design_ref": "DESIGN.md section 5 C10",
}

DEFS = [
    ("corr_bad", "bad_indices case_model_ok {c} 0"),
    ("spec_bad", "bad_indices case_spec_ok_C10 {c} 0"),
    ("iff_idx", "bad_indices (fun w => negb (c10_iff_domain w)) {c} 0"),
    ("panic_idx", "bad_indices (fun w => negb (c10_panics_on_obs w)) {c} 0"),
]


def inside_walk(c):
    note = c.get("note") or ""
    try:
        n = int(note.split("n=")[1].split()[0])
        m = int(note.split("m=")[1].split()[0])
    except (IndexError, ValueError):
        return False
    if c.get("max_inodes", 0) and 1 <= c["max_inodes"] <= n:
        return True
    k = c.get("cancel", {})
    if k.get("kind") == "visit" and k.get("n", 0) <= n:
        return True
    if k.get("kind") == "extract" and 1 <= k.get("n", 0) <= m:
        return True
    return bool(c.get("max_size"))


def nontrivial(c):
    ts = wc.tree_stats(c)
    return ts["dirs_below_root"] >= 1 and len(c.get("req", [])) >= 1 and inside_walk(c)


def describe(c):
    return wc.strip_obs(c)


def run(ctx):
    bad = ctx.gate(COQ_FILES)
    if bad:
        ctx.violation({"kind": "gate", "hits": bad}, nofail=True)
    pa = ctx.prove(PROPS, clean=(COQ_FILES[1:] if ctx.tier == "thorough" else False))
    ctx.log("proof ok=%s obligations=%d closed=%d" % (pa["ok"], pa["obligations"], pa["print_assumptions_closed"]))
    vlib.proof_coverage(ctx, pa)
    ctx.coverage["trusted_base"] = vlib.std_trusted_base(pa, wc.TRUSTED)
    if ctx.tier == "thorough":
        n, extra = 150, ["-exhaustive"]
    else:
        n, extra = 40, []
    cases, vfile, binp = wc.build_and_run(ctx, "C10", n, extra)
    if cases is None:
        ctx.violation({"kind": "harness-build-failed", "log": vfile[-3000:], "correspondence": wc.CORR_NAME,
                       "theorems_no_longer_tied_to_code": THEOREMS}, nofail=True)
        return
    ctx.log("harness ran %d cases" % len(cases))
    res, nshards = wc.shard_eval(ctx, "C10", vfile, DEFS)
    corr_bad, spec_bad = res["corr_bad"], res["spec_bad"]
    iff_dom, panics = set(res["iff_idx"]), set(res["panic_idx"])
    ctx.log("corr_bad=%d spec_bad=%d iff_domain=%d observed_panics=%d shards=%d" %
            (len(corr_bad), len(spec_bad), len(iff_dom), len(panics), nshards))
    # every observed panic must be the known one: UseGitignore on (the oracle already fails a panic without it)
    unexpected_panics = sorted(panics)
    for i in unexpected_panics[:3]:
        ctx.violation({"kind": "spec-failure", "case": describe(cases[i]), "case_index": i,
                       "explanation": "the engine panicked"})

    stale = []
    for e in ctx.known_findings():
        coq_case, impl = wc.replay_witness(ctx, binp, e["witness"], e["id"])
        if coq_case is None:
            raise RuntimeError("witness replay failed: " + str(impl)[-1500:])
        rc, out = wc.eval_single(ctx, "C10_known_" + e["id"].replace("-", "_"), coq_case, [
            ("k_model", "case_model_ok w"), ("k_panic", "c10_panics_on_obs w"), ("k_gi", "w_gi w")])
        km, kp, kg = (wc.printed_bool(out, x) for x in ("k_model", "k_panic", "k_gi"))
        if None in (km, kp, kg):
            raise RuntimeError("known-finding evaluation failed: " + out[-1500:])
        if kp and km and kg:
            ctx.print_known(e)
        else:
            stale.append({"id": e["id"], "refuted_theorem": e.get("refuted_theorem"), "model_reproduces": km,
                          "implementation_panics": kp, "use_gitignore": kg})
    for s in stale:
        ctx.violation({"kind": "known-finding-stale", "entry": s, "correspondence": wc.CORR_NAME,
                       "explanation": "the listed witness no longer panics on the implementation although the model and the "
                                      "_refuted theorem say so; theorem named in entry is stale"}, nofail=True)

    # the halves written by other builders: image (layer file limit) and plugin loops (standalone / detector context checks)
    parts = []
    for pname, fname, rulekey in (("image", "part_C10_image.py", "rule_image"), ("plugins", "part_C10_plugins.py", "rule_plugins")):
        part_path = os.path.join(vlib.VERIF, "checks", fname)
        if not os.path.exists(part_path):
            ctx.notes.append("checks/%s absent: %s half not run" % (fname, pname))
            continue
        spec = importlib.util.spec_from_file_location(fname[:-3], part_path)
        part = importlib.util.module_from_spec(spec)
        spec.loader.exec_module(part)
        p_corr, p_spec, p_stats = part.run_part(ctx)
        parts.append((pname, rulekey, p_stats))
        ppa = p_stats.get("pa") or {}
        if p_stats.get("gate_hits"):
            ctx.violation({"kind": "gate", "hits": p_stats["gate_hits"], "part": pname}, nofail=True)
        for c in p_spec[:3]:
            ctx.violation({"kind": "spec-failure", "part": pname, "case": c,
                           "explanation": "the %s half of C10 fails on this case (see the part's replay)" % pname})
        if not p_spec:
            if ppa and not ppa.get("ok", True):
                ctx.violation({"kind": "proof-broken", "part": pname, "theorems": p_stats.get("theorems"),
                               "log_tail": ppa.get("log_tail")}, nofail=True)
            if p_stats.get("harness_build_failed"):
                ctx.violation({"kind": "harness-build-failed", "part": pname, "log": p_stats["harness_build_failed"]}, nofail=True)
            if p_corr:
                ctx.violation({"kind": "correspondence-broken", "part": pname, "correspondence": p_stats.get("correspondence"),
                               "theorems_no_longer_tied_to_code": p_stats.get("theorems"), "first_mismatch": p_corr[0],
                               "mismatches": len(p_corr)}, nofail=True)
    img_stats = {}
    for pname, rulekey, st in parts:
        img_stats.setdefault("evaluations", 0)
        img_stats.setdefault("distinct_nontrivial", 0)
        img_stats["evaluations"] += st.get("evaluations", 0)
        img_stats["distinct_nontrivial"] += st.get("distinct_nontrivial", 0)
        img_stats["rule_image"] = (img_stats.get("rule_image", "") + " " + st.get(rulekey, "")).strip()
        img_stats["samples"] = img_stats.get("samples", []) + st.get("samples", [])[:2]

    seen = set()
    for c in cases:
        if nontrivial(c):
            seen.add(vlib.sha(wc.canonical_input(c)))
    kinds = lambda c: ("inodes" if c.get("max_inodes") else "") + ("+size" if c.get("max_size") else "") + \
        ("+cancel@" + c["cancel"]["kind"] if c.get("cancel", {}).get("kind") else "")
    cov = {
        "evaluations": len(cases) + (img_stats or {}).get("evaluations", 0),
        "distinct_nontrivial": len(seen) + (img_stats or {}).get("distinct_nontrivial", 0),
        "rule": "a case = tree(s) needing n visits and m Extract calls (measured by an unlimited probe run) with MaxInodes from "
                "{1, n-1, n, n+1}, MaxFileSize around the file sizes, cancellation at the k-th visit (k = 0..n+1) or inside the "
                "j-th Extract (j = 1..m+1), and combinations; distinct by SHA-256 of the canonical input; non-trivial when the tree "
                "has >= 1 directory below the root, >= 1 required file and the limit / cancellation point falls inside the walk. "
                + ((img_stats or {}).get("rule_image", "")),
        "samples": [describe(cases[i]) for i in sorted({0, len(cases) // 3, len(cases) // 2, len(cases) - 1}) if i < len(cases)]
                   + (img_stats or {}).get("samples", [])[:2],
        "exhaustive": False,
        "input_distribution": {
            "limit_kinds": wc.histogram(kinds(c) or "unlimited" for c in cases),
            "outcome": wc.histogram(c["obs"]["class"] for c in cases),
            "roots": wc.histogram(len(c["roots"]) for c in cases),
            "gitignore": wc.histogram(bool(c.get("gitignore")) for c in cases),
            "iff_oracle_domain": len(iff_dom), "observed_panics": len(panics),
            "base_trees": len({c.get("variant") for c in cases}),
        },
        "vm_compute_cases": len(cases),
        "explanation": "bounds (visits <= MaxInodes, size of every extracted file <= MaxFileSize, no Extract on a file first visited "
                       "after the cancellation point, no panic) are evaluated on every case; the fails-iff-"
                       "work-remained statements on the cases inside their domain",
    }
    ctx.coverage.update(cov)
    for pname, rulekey, st in parts:
        ppa = st.get("pa") or {}
        ctx.coverage["obligations"] += ppa.get("obligations", 0)
        ctx.coverage["discharged"] += ppa.get("discharged", 0)
        ctx.coverage["theorems"] = ctx.coverage.get("theorems", []) + (ppa.get("theorems") or [])
        ctx.coverage["print_assumptions_closed"] += ppa.get("print_assumptions_closed", 0)
        ctx.coverage["trusted_base"] += st.get("trusted_base", [])
        if ppa.get("props_file"):
            ctx.coverage["checker_cmd"] += " theories/%s.vo" % ppa["props_file"][:-2]
        ctx.coverage["input_distribution"][pname + "_half"] = {
            k: v for k, v in st.items()
            if k in ("evaluations", "distinct_nontrivial", "size_vs_limit", "streams", "cancellation_points", "outcomes", "plugin_list_shapes")}
    ctx.assumptions += ["the context is cancelled by the harness at a chosen AfterInodeVisited / Extract call",
                        "go-git / regexp / glob are functions (tabulated per case)"]
    if unexpected_panics:
        return
    vlib.standard_decide(ctx, pa, corr_bad, spec_bad, cases, describe, THEOREMS, wc.CORR_NAME)


def replay(ctx, path):
    binp, out = ctx.harness_build("walk")
    obj = json.load(open(path))
    case = obj.get("case") or obj.get("first_mismatch") or obj
    if obj.get("part") == "image":
        print("image-half replay: see harness/cmd/contain -limitmode; case:", json.dumps(case))
        return 0
    if obj.get("part") == "plugins":
        spec = importlib.util.spec_from_file_location("part_C10_plugins", os.path.join(vlib.VERIF, "checks", "part_C10_plugins.py"))
        part = importlib.util.module_from_spec(spec)
        spec.loader.exec_module(part)
        print(part.replay_case(ctx, case))
        return 0
    coq_case, impl = wc.replay_witness(ctx, binp, case, "replay")
    print("implementation:", json.dumps(impl))
    if coq_case:
        rc, out = wc.eval_single(ctx, "C10_replay", coq_case, [
            ("model", "model_obs_d (cfg_of_case w) (w_dets w) (w_roots w)"),
            ("model_eq_impl", "case_model_ok w"),
            ("bounds_ok", "c10_bounds_on_obs w"), ("iff_domain", "c10_iff_domain w"), ("iff_ok", "c10_iff_on_obs w"),
            ("spec_ok", "case_spec_ok_C10 w")])
        print(out)
    return 0

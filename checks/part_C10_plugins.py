"""C10, plugin-loop half: per-plugin context checks of standalone.Run / detector.Run and the status derivation of
scalibr.Scan after the filesystem walk (Detect/Props_C10_plugins.v) and their correspondence.

Called by checks/C10.py exactly like part_C10_image:

    import importlib.util, os
    spec = importlib.util.spec_from_file_location("part_C10_plugins", os.path.join(vlib.VERIF, "checks", "part_C10_plugins.py"))
    part = importlib.util.module_from_spec(spec); spec.loader.exec_module(part)
    corr_bad_cases, spec_bad_cases, stats = part.run_part(ctx)

run_part(ctx) proves Detect/Props_C10_plugins.v itself (ctx.prove), builds harness/cmd/pluginloops from /repo's current
tree, drives the REAL scalibr.Scan (plus standalone.Run and detector.Run directly) with fake standalone extractors and
detectors and a context that is cancelled before the scan, inside the walk's last Extract, inside the k-th plugin, or right
after the k-th plugin (deferred cancel / stats.AfterDetectorRun hook), and evaluates model and spec by vm_compute.  Returns
  corr_bad_cases : case dicts where Detect.PluginLoops.scan_plugins / standalone_run / Detect.Model.detector_run disagree
                   with the implementation (plugins invoked, ScanResult.Status, plugin statuses, packages, findings)
  spec_bad_cases : case dicts violating the sentence itself: a plugin invoked after the cancellation point, a plugin run
                   twice / out of order, work remained but no failure reported, or an uncancelled scan not running every plugin
  stats          : dict (proof result `pa`, gate hits, counts, distribution, samples, theorem names, trusted base lines)
It never calls ctx.violation itself; a broken proof is reported through stats["pa"]["ok"] == False, a harness that does
not build through stats["harness_build_failed"].
"""
import json
import os
import re
from concurrent.futures import ThreadPoolExecutor

import vlib

PROPS = "Detect/Props_C10_plugins.v"
COQ_FILES = ["Detect/Index.v", "Detect/Model.v", "Detect/Proofs.v", "Detect/PluginLoops.v", "Detect/PluginLoopsProofs.v",
             "Detect/PluginCases.v", "Detect/Props_C10_plugins.v"]
THEOREMS = ["invoked_is_prefix", "cancel_runs_no_further_plugin", "cancel_reports_failure_if_work_remained",
            "uncancelled_runs_every_plugin_once", "failed_walk_runs_no_plugin", "standalone_loop_checks_context",
            "detector_loop_checks_context"]
CORR_NAME = ("scalibr.Scan after the walk, standalone.Run, detector.Run (Go, fake plugins cancelling the context) vs "
             "Detect.PluginLoops.scan_plugins / standalone_run and Detect.Model.detector_run (Coq, vm_compute)")


def _cancel_kind(c):
    ks = []
    if c["ctx0"]:
        ks.append("before-scan")
    if c["has_fs"] and c["fs_cancels"]:
        ks.append("in-walk-last-extract")
    ks += ["standalone-" + s["cancel"] for s in c["sas"] if s["cancel"]]
    ks += ["detector-" + d["cancel"] for d in c["dets"] if d["cancel"]]
    return ks


def run_part(ctx):
    stats = {"theorems": THEOREMS, "correspondence": CORR_NAME, "coq_files": COQ_FILES}
    stats["gate_hits"] = ctx.gate(COQ_FILES)
    pa = ctx.prove(PROPS, clean=False)
    stats["pa"] = pa
    ctx.log("C10/plugins proof ok=%s obligations=%d closed=%d" % (pa["ok"], pa["obligations"], pa["print_assumptions_closed"]))
    rc, out = ctx.coq_make(["theories/Detect/PluginCases.vo"])
    if rc != 0:
        raise RuntimeError("Detect/PluginCases.v does not compile: " + out[-2000:])
    binp, out = ctx.harness_build("pluginloops")
    if binp is None:
        stats["harness_build_failed"] = out[-3000:]
        return [], [], stats
    d = os.path.join(vlib.BUILD, "cases")
    os.makedirs(d, exist_ok=True)
    vfile = os.path.join(d, "C10plug_cases.v")
    side = os.path.join(d, "C10plug_cases.jsonl")
    args = (["-maxsa", "3", "-maxdet", "3", "-random", "2500"] if ctx.tier == "thorough"
            else ["-maxsa", "2", "-maxdet", "2", "-random", "300"])
    rc, out = vlib.sh([binp, "-out", vfile, "-jsonl", side, "-seed", str(ctx.seed)] + args, timeout=900)
    if rc != 0:
        raise RuntimeError("pluginloops harness failed: " + out[-3000:])
    cases = [json.loads(l) for l in open(side)]
    txt = open(vfile).read()
    header = txt[:txt.index("Definition cases_0")]
    chunks = re.findall(r"(Definition (cases_\d+) : list pcase :=\n.*?\]\.\n)", txt, re.S)
    per = 250

    def one(k):
        body, name = chunks[k]
        v = header + body + (
            "Definition corr_bad := Eval vm_compute in bad_indices case_model_ok %s 0.\nPrint corr_bad.\n"
            "Definition spec_bad := Eval vm_compute in bad_indices case_spec_ok %s 0.\nPrint spec_bad.\n" % (name, name))
        rc, out = ctx.run_cases("C10plug_shard_%d" % k, v)
        cb, sb = vlib.parse_printed_list(out, "corr_bad"), vlib.parse_printed_list(out, "spec_bad")
        if rc != 0 or cb is None or sb is None:
            raise RuntimeError("C10 plugin cases shard %d failed to evaluate: %s" % (k, out[-1500:]))
        return [k * per + i for i in cb], [k * per + i for i in sb]

    cb, sb = [], []
    with ThreadPoolExecutor(max_workers=8) as ex:
        for a, b in ex.map(one, range(len(chunks))):
            cb += a
            sb += b

    seen = set()
    kinds, outcome, shape = {}, {}, {}
    for c in cases:
        ks = _cancel_kind(c)
        for k in ks or ["never-cancelled"]:
            kinds[k] = kinds.get(k, 0) + 1
        n = len(c["sas"]) + len(c["dets"])
        o = ("walk-failed/" if c["walk"]["failed"] else "") + ("work-remained" if len(c["scan"]["calls"]) < n else "all-plugins-ran") + \
            ("/FAILED" if c["scan"]["failed"] else "/ok")
        outcome[o] = outcome.get(o, 0) + 1
        sh = "%d standalone + %d detectors" % (len(c["sas"]), len(c["dets"]))
        shape[sh] = shape.get(sh, 0) + 1
        # non-trivial (DESIGN.md section 14, C10): the cancellation point falls inside the plugin phase, i.e. the context is
        # cancelled and at least one plugin is configured
        if ks and n > 0:
            seen.add(vlib.sha({k: c[k] for k in ("has_fs", "fs_pkgs", "fs_cancels", "ctx0", "sas", "dets")}))
    pick = [c for c in cases if c["sas"] and c["dets"] and _cancel_kind(c)]
    stats.update({
        "evaluations": len(cases),
        "distinct_nontrivial": len(seen),
        "rule_plugins": "one case = 0..3 (random stream: 0..5) fake standalone extractors + 0..3 (0..5) fake detectors with every error-flag "
                        "vector, run through the real scalibr.Scan, standalone.Run and detector.Run; cancellation before the scan, inside "
                        "the walk's only Extract, inside or right after the k-th plugin for every k (random stream: several points); "
                        "non-trivial when the context is cancelled and at least one plugin is configured",
        "cancellation_points": kinds,
        "outcomes": outcome,
        "plugin_list_shapes": shape,
        "streams": {s: sum(1 for c in cases if c["stream"] == s) for s in sorted({c["stream"] for c in cases})},
        "samples": (pick[:1] + pick[len(pick) // 2:len(pick) // 2 + 1]) or cases[:2],
        "trusted_base": ["Go harness harness/cmd/pluginloops (fake plugins record their invocation; cancellation by the plugin itself, by a "
                         "deferred cancel, or by stats.AfterDetectorRun; the filesystem walk's result is taken from a probe run of the real "
                         "filesystem.Run with the same setup and is an input of the modelled phase)",
                         "a context cancelled while plugin k runs and one cancelled between plugin k and k+1 are the same model input "
                         "(the loops look at the context only before each plugin)"],
    })
    ctx.log("C10/plugins cases=%d corr_bad=%d spec_bad=%d" % (len(cases), len(cb), len(sb)))
    return [cases[i] for i in cb], [cases[i] for i in sb], stats


def replay_case(ctx, case):
    """Re-run one case dict (as returned in corr_bad_cases / spec_bad_cases) through implementation, model and spec."""
    binp, out = ctx.harness_build("pluginloops")
    if binp is None:
        return out
    ctx.coq_make(["theories/Detect/PluginCases.vo"])
    p = os.path.join(vlib.BUILD, "cases", "C10plug_replay.json")
    os.makedirs(os.path.dirname(p), exist_ok=True)
    json.dump({"case": {k: case[k] for k in ("stream", "has_fs", "fs_pkgs", "fs_cancels", "ctx0", "sas", "dets") if k in case}}, open(p, "w"))
    rc, out = vlib.sh([binp, "-replay", p], timeout=120)
    coq = [l for l in out.splitlines() if l.startswith("coq-case: ")]
    if rc != 0 or not coq:
        return out
    v = ("From Coq Require Import List NArith ZArith Bool.\nFrom Scalibr Require Import Detect.Index Detect.Model Detect.PluginLoops Detect.PluginCases.\n"
         "Import ListNotations.\nOpen Scope N_scope.\nDefinition c : pcase := %s.\n"
         "Definition model_agrees := Eval vm_compute in case_model_ok c.\nPrint model_agrees.\n"
         "Definition spec_holds := Eval vm_compute in case_spec_ok c.\nPrint spec_holds.\n"
         "Definition model_invoked := Eval vm_compute in po_calls (scan_plugins (pc_walk_failed c) (pc_fs_pkgs c) (pc_fs_status c) (pc_c0 c) (pc_sas c) (pc_dets c)).\nPrint model_invoked.\n"
         % coq[0][len("coq-case: "):])
    rc2, out2 = ctx.run_cases("C10plug_replay", v)
    return out + "\n" + out2

"""C02 - no file content can crash or hang a built-in extractor.

PROVED (Coq): totality of the byte-level extractor models (apk, gradle.lockfile, Gemfile.lock, dpkg status) on arbitrary bytes (+ engine confinement when the
Walk/Props_C02_engine.v file is present).  SEARCHED (fuzzing, not proof): every other extractor and the real
implementations themselves, by the recover-and-watchdog harness harness/cmd/fuzzextract."""
import base64
import hashlib
import json
import os
import re
import shutil
from concurrent.futures import ThreadPoolExecutor

import sys
import vlib

sys.path.insert(0, os.path.dirname(os.path.abspath(__file__)))
import part_C02_engine as eng  # noqa: E402

LEVEL = "proof"
PROPS = "Formats/Props_C02.v"
ENGINE_PROPS = "Walk/Props_C02_engine.v"
# the gate covers every Formats/ source the Props file imports (derived from its `Require` lines at run time, see coq_files())
COQ_FILES = ["Formats/Lines.v", "Formats/LinesProofs.v", "Formats/Apk.v", "Formats/ApkProofs.v", "Formats/Gradle.v",
             "Formats/GradleProofs.v", "Formats/Gemfile.v", "Formats/GemfileProofs.v", "Formats/Dpkg.v", "Formats/DpkgProofs.v",
             "Formats/Props_C02.v"]
THEOREMS = ["apk_total", "gradle_total", "gemfile_total", "dpkg_total"]  # fallback when the Props file cannot be read
# <name>_total theorem -> what the model parses (names not listed here are shown as they are)
PARSER_NAMES = {"apk": "apk installed (lib/apk/db/installed)", "gradle": "gradle.lockfile", "gemfile": "Gemfile.lock",
                "dpkg": "dpkg status (var/lib/dpkg/status, status.d)", "requirements": "requirements.txt",
                "gomod_bytes": "go.mod (byte-level sub-grammar model)"}


def coq_files():
    """COQ_FILES plus any further Formats.* module the Props file requires (so a newly added parser model is gated too)."""
    files = [f for f in COQ_FILES if os.path.exists(os.path.join(vlib.COQ, "theories", f))]
    try:
        src = open(os.path.join(vlib.COQ, "theories", PROPS)).read()
    except OSError:
        return files
    for m in re.findall(r"\bFormats\.(\w+)", src):
        f = "Formats/%s.v" % m
        if f not in files and os.path.exists(os.path.join(vlib.COQ, "theories", f)):
            files.insert(-1, f)
    return files


def proved_parsers(theorems):
    """(theorem names ending in _total, human readable parser list) from what ctx.prove found in the Props file."""
    tot = [t for t in theorems if t.endswith("_total")]
    return tot, [PARSER_NAMES.get(t[:-6], t[:-6]) for t in tot]


META = {
    "technique": "Coq totality theorems (forall bytes, parse_F bytes <> Panic; structural recursion = termination) for the byte-level "
                 "extractor models (apk installed, gradle.lockfile, Gemfile.lock, dpkg status), engine-confinement theorem when present; everything else by SEARCH: a recover-and-watchdog fuzz "
                 "harness over all offline built-in extractors (structure-aware mutations, per-call deadline, memory-limited workers)",
    "level_text": "PROVED: (a) engine confinement (Walk/Props_C02_engine.v, only when that file is present in the tree: a failing Extract "
                  "changes only that extractor's status and its contribution from that file), tied to the code on every run by the engine "
                  "stream: generated trees with 2-4 fake extractors requiring the same files, one of them failing / returning partial "
                  "results / panicking, run through the real filesystem.Run and scalibr.Scan, compared with Walk.Model (vm_compute) and with "
                  "the counterfactual run in which the failing extractor succeeds (identical calls, packages and statuses of all other "
                  "extractors), plus real built-in extractors over a tree with corrupt files next to healthy ones; (b) totality of the byte-level parser models "
                  "in Formats/Props_C02.v - currently 5: apk installed, gradle.lockfile, Gemfile.lock, dpkg status, requirements.txt (the evidence lists the "
                  "<F>_total theorems actually compiled by the run) - for ALL byte strings: the model never reaches Panic, and terminates by "
                  "structural recursion. NOT PROVED, only searched: the other ~53 extractors (JSON/TOML/XML/YAML/sqlite/bolt/ELF/PE/zip/"
                  "plist/rpmdb decoders under the Go runtime) and the real Go implementations of the modelled parsers themselves: each run feeds mutated "
                  "fixture files to every offline built-in extractor's real Extract under recover, a per-call deadline (3 s quick / 10 s "
                  "thorough) and a 4 GiB address-space limit; a panic, hang or process death is a VIOLATION with the concrete input. "
                  "A fuzz run that finds nothing proves nothing about the inputs it did not try.",
    "level_note": "Trusted: Coq kernel + vm_compute; the Gallina parser models are hand-written and tied to the Go code by the C03 "
                  "correspondence run (not by this check). The fuzz part is exploration: Go harness harness/cmd/fuzzextract (mutators, "
                  "watchdog, stack parsing), the deadline is wall-clock on a shared machine (timeouts are re-run alone before they count).",
    "design_ref": "DESIGN.md section 5 C02",
}


# ------------------------------------------------------------------------------------------ known findings
def _witnesses(entry):
    ws = []
    if entry.get("witness"):
        ws.append(entry["witness"])
    ws += entry.get("more_witnesses") or []
    return ws


def _as_list(x):
    if x is None:
        return []
    return x if isinstance(x, list) else [x]


def matches_signature(f, entry):
    """Does fuzz finding f (dict from fuzzextract's output) belong to the known defect `entry`?"""
    for w in _witnesses(entry):
        if w.get("extractor") == f["extractor"] and w.get("input_sha256") == f["input_sha256"] and \
                (w.get("os_release_b64") or None) == (f.get("os_release") or None):
            return True
    return any(_matches_one(f, sig) for sig in _as_list(entry.get("signature")))


def _matches_one(f, sig):
    if not sig:
        return False
    if f["kind"] not in _as_list(sig.get("kinds") or ["panic"]):
        return False
    exts = sig.get("extractors", "*")
    if exts != "*" and f["extractor"] not in _as_list(exts):
        return False
    tops = _as_list(sig.get("top_frame"))
    if tops and f.get("top_frame") not in tops:
        return False
    sc = _as_list(sig.get("stack_contains"))
    if sc and not any(s in fr for s in sc for fr in (f.get("stack") or [])):
        # a watchdog kill whose SIGQUIT goroutine dump did not arrive has no stack at all: third-party hang classes may
        # opt in to be recognised by (extractor, kind) alone in that case
        if not (sig.get("allow_without_stack") and not f.get("stack") and f["kind"] in ("timeout", "worker_death") and exts != "*"):
            return False
        return True
    mp = _as_list(sig.get("message_prefix"))
    if mp and not any((f.get("message") or "").startswith(m) for m in mp):
        return False
    return bool(tops or sc or mp)


def replay_case(binp, case, timeout_s, workdir, tag):
    """Run one explicit case through `fuzzextract -replay`; returns (kind, output)."""
    p = os.path.join(workdir, "replay_%s.json" % tag)
    with open(p, "w") as f:
        json.dump({"case": case}, f)
    rc, out = vlib.sh([binp, "-replay", p, "-timeout", str(timeout_s), "-repo", vlib.REPO], timeout=timeout_s + 180)
    m = re.search(r"^implementation: (\S+)", out, re.M)
    top = re.search(r"^top_frame: (\S+)", out, re.M)
    return (m.group(1) if m else "harness_error"), (top.group(1) if top else ""), out


def witness_case(w):
    c = {"extractor": w["extractor"], "path": w["path"], "input_b64": w.get("input_b64", "")}
    if w.get("input_gen"):
        g = w["input_gen"]  # compact description of a large repetitive input: prefix + unit*n + suffix
        data = g.get("prefix", "").encode("latin-1") + g["unit"].encode("latin-1") * int(g["n"]) + g.get("suffix", "").encode("latin-1")
        c["input_b64"] = base64.b64encode(data).decode()
    if w.get("mode"):
        c["mode"] = w["mode"]
    if w.get("os_release_b64") is not None:
        c["os_release_b64"] = w["os_release_b64"]
    if w.get("siblings_b64"):
        c["siblings_b64"] = w["siblings_b64"]
    return c


# ------------------------------------------------------------------------------------------ run
def engine_part(ctx, thorough, all_pa):
    es = eng.engine_stream(ctx, 400 if thorough else 60)
    if es.get("build_failed"):
        ctx.violation({"kind": "harness-build-failed", "log": es["build_failed"][-3000:], "correspondence": eng.CORR_NAME,
                       "theorems_no_longer_tied_to_code": eng.THEOREMS}, nofail=True)
    else:
        pairs, flat = es["pairs"], es["flat"]
        for i, probs in es["oracle_bad"][:3]:
            F, S, meta = pairs[i]
            cf_, fo, cs_, so = es["results"][i]
            ctx.violation({"kind": "engine-confinement-violated", "engine_case": dict(F, obs=fo), "counterfactual_case": dict(S, obs=so),
                           "meta": meta, "problems": probs,
                           "explanation": "filesystem.Run / scalibr.Scan were run on this tree with these (fake) extractors and again with "
                                          "the failing extractor succeeding: other extractors' packages / statuses / calls differ, i.e. the "
                                          "failure of one extractor on one file is not confined to that extractor"})
        if es["corr_bad"] and not es["oracle_bad"]:
            i = es["corr_bad"][0]
            ctx.violation({"kind": "correspondence-broken", "correspondence": eng.CORR_NAME, "theorems_no_longer_tied_to_code": eng.THEOREMS,
                           "first_mismatch": flat[i][0], "meta": flat[i][1], "which_run": flat[i][2], "mismatches": len(es["corr_bad"]),
                           "explanation": "Walk.Model and the engine disagree on this multi-extractor case; the confinement oracle itself "
                                          "found no failing pair"}, nofail=True)
        modes, positions = {}, {}
        seen = set()
        for F, S, meta in pairs:
            modes[meta["mode"]] = modes.get(meta["mode"], 0) + 1
            key = "first" if meta["position"] == 0 else "last" if meta["position"] == meta["n_exts"] - 1 else "middle"
            positions[key] = positions.get(key, 0) + 1
            seen.add(vlib.sha([F["roots"], F["exts"], F["req"], F["extract"]]))
        ctx.coverage["engine_stream"] = {
            "pairs": len(pairs), "engine_runs": 2 * len(pairs), "distinct_pairs": len(seen), "model_mismatches": len(es["corr_bad"]),
            "oracle_failures": len(es["oracle_bad"]), "failure_modes": modes, "failing_extractor_position": positions,
            "rule": "a pair = one generated tree with 2..4 fake extractors requiring the same files, one of them returning an error / an "
                    "error with partial results / panicking on >= 1 shared file, run through filesystem.Run and scalibr.Scan, plus the "
                    "counterfactual run in which it succeeds; every run is compared with Walk.Model (vm_compute); non-panic pairs are "
                    "judged by the counterfactual oracle (identical call sequence; identical packages and status of every other extractor)",
            "sample": {"case": pairs[0][0], "meta": pairs[0][2], "observed": es["results"][0][1]},
        }
        ctx.log("engine stream: pairs=%d corr_bad=%d oracle_bad=%d" % (len(pairs), len(es["corr_bad"]), len(es["oracle_bad"])))
    rs = eng.real_side_by_side(ctx, 120 if thorough else 30)
    if rs.get("build_failed"):
        ctx.violation({"kind": "harness-build-failed", "log": rs["build_failed"][-3000:],
                       "explanation": "harness/cmd/engineconf does not build against this tree"}, nofail=True)
        return
    bad = [s for s in rs["scenarios"] if s["verdict"] == "violated"]
    herr = [s for s in rs["scenarios"] if s["verdict"] == "harness-error"]
    for s in bad[:3]:
        ctx.violation({"kind": "engine-confinement-violated-real-extractors", "scenario": s, "problems": s["problems"],
                       "explanation": "real built-in extractors over a small tree: a corrupt file / a failing extractor changed the packages "
                                      "or the PluginStatus of another extractor compared with the repaired tree"})
    if herr:
        raise RuntimeError("engineconf harness error: " + str(herr[0]["problems"]))
    ctx.coverage["real_extractors_side_by_side"] = {
        "scenarios": len(rs["scenarios"]), "violated": len(bad),
        "with_fake_failing_extractor_on_a_shared_file": len([s for s in rs["scenarios"] if s.get("fake_extractor_paths")]),
        "with_corrupt_files": len([s for s in rs["scenarios"] if s.get("counterfactual_files")]),
        "sample": {k: rs["scenarios"][1][k] for k in ("extractor_order", "extractors_expected_to_fail", "fake_extractor_paths", "run")
                   if k in rs["scenarios"][1]} if len(rs["scenarios"]) > 1 else None,
    }
    ctx.log("real extractors side by side: scenarios=%d violated=%d" % (len(rs["scenarios"]), len(bad)))


def run(ctx):
    thorough = ctx.tier == "thorough"
    files = coq_files()
    engine_present = os.path.exists(os.path.join(vlib.COQ, "theories", ENGINE_PROPS))
    if engine_present:
        files.append(ENGINE_PROPS)
    bad = ctx.gate(files)
    if bad:
        ctx.violation({"kind": "gate", "hits": bad}, nofail=True)
    pa = ctx.prove(PROPS, clean=([f for f in files if f != ENGINE_PROPS] if thorough else False))
    total_thms, parsers = proved_parsers(pa["theorems"])
    ctx.log("proof ok=%s obligations=%d closed=%d" % (pa["ok"], pa["obligations"], pa["print_assumptions_closed"]))
    vlib.proof_coverage(ctx, pa)
    props_files = [PROPS]
    all_pa = [pa]
    if engine_present:
        pe = ctx.prove(ENGINE_PROPS)
        ctx.log("engine confinement proof ok=%s obligations=%d closed=%d" % (pe["ok"], pe["obligations"], pe["print_assumptions_closed"]))
        all_pa.append(pe)
        props_files.append(ENGINE_PROPS)
        ctx.coverage["obligations"] = pa["obligations"] + pe["obligations"]
        ctx.coverage["discharged"] = pa["discharged"] + pe["discharged"]
        ctx.coverage["theorems"] = pa["theorems"] + pe["theorems"]
        ctx.coverage["print_assumptions_closed"] = pa["print_assumptions_closed"] + pe["print_assumptions_closed"]
        ctx.coverage["axioms"] = sorted(set(pa["axioms"]) | set(pe["axioms"]))
        ctx.coverage["proof_build_s"] = round(pa["build_s"] + pe["build_s"], 1)
        ctx.coverage["checker_cmd"] = ("cd /verif/coq && coq_makefile -f _CoqProject -o Makefile && make -j16 " +
                                       " ".join("theories/%s.vo" % p[:-2] for p in props_files))
        ctx.coverage["engine_confinement"] = "present: %s (%d obligations, build ok=%s)" % (ENGINE_PROPS, pe["obligations"], pe["ok"])
    else:
        ctx.coverage["engine_confinement"] = "absent: %s not present in this tree" % ENGINE_PROPS
        ctx.notes.append("engine confinement theorem file %s is not present in this tree: the proved part of this run is the totality of "
                         "the byte-level parser models only" % ENGINE_PROPS)
    ctx.coverage["props_files"] = props_files
    proof_ok = all(p["ok"] for p in all_pa)
    if thorough and proof_ok:
        ctx.coqchk(["Scalibr.Formats.Props_C02"] + (["Scalibr.Walk.Props_C02_engine"] if engine_present else []))
    merged_pa = {"axioms": ctx.coverage.get("axioms", pa["axioms"])}
    tb_extra = [
        "the Gallina parser models (Formats/Apk.v, Gradle.v, Gemfile.v, Dpkg.v, ...) are hand-written; their agreement with the Go extractors is "
        "checked on generated files by check C03, not here",
        "modelled, not verified: bufio.Scanner (Formats/Lines.v), strings.Cut/SplitN/TrimSpace, the Go runtime's bounds checks as the "
        "explicit Panic outcome of the index/slice helpers",
        "fuzz part (exploration, not proof): Go harness harness/cmd/fuzzextract - mutators (byte, token, line, JSON/TOML/YAML string leaves, zip members re-packed), a deterministic "
        "systematic pass before the budgeted random phase, recover, validation of the returned inventory the way filesystem.runExtractor consumes it and filesystem.Run on a sample, "
        "parent watchdog (wall-clock deadline), "
        "RLIMIT_AS + debug.SetMemoryLimit in the worker, parsing of Go stack traces for de-duplication",
    ]
    ctx.coverage["trusted_base"] = vlib.std_trusted_base(merged_pa, tb_extra)
    ctx.assumptions += [
        "the Coq parser models (apk, gradle.lockfile, Gemfile.lock, dpkg status) correspond to the Go code (established by C03's correspondence run)",
        "absence of fuzz findings is not absence of defects: only the inputs actually tried are covered",
        "a timeout is a wall-clock observation; it counts only when it reproduces when re-run alone",
    ]

    def proof_broken_if_needed(found_concrete):
        if proof_ok or found_concrete:
            return
        brk = [p for p in all_pa if not p["ok"]][0]
        ctx.violation({"kind": "proof-broken", "theorems": (total_thms or THEOREMS) + (all_pa[1]["theorems"] if engine_present else []),
                       "props_file": brk["props_file"], "log_tail": brk["log_tail"],
                       "explanation": "the Coq development no longer compiles; the fuzz search of this run found no failing input"},
                      nofail=True)

    # ---- harness
    # ---- second sentence of the property: engine confinement tied to the code (see part_C02_engine.py)
    engine_part(ctx, thorough, all_pa)

    fbin, out1 = ctx.harness_build("formats")
    binp, out2 = ctx.harness_build("fuzzextract")
    if binp is None or fbin is None:
        ctx.violation({"kind": "harness-build-failed", "log": ((out1 if fbin is None else "") + (out2 if binp is None else ""))[-3000:],
                       "explanation": "the fuzz harness does not build against this tree: no extractor was exercised",
                       "theorems_no_longer_tied_to_code": THEOREMS}, nofail=True)
        return
    d = os.path.join(vlib.BUILD, "cases", "C02")
    shutil.rmtree(d, ignore_errors=True)
    c03dir = os.path.join(d, "c03seeds")
    fdir = os.path.join(d, "findings")
    os.makedirs(c03dir, exist_ok=True)
    n, mal = (300, 100) if thorough else (60, 20)
    rc, out = vlib.sh([fbin, "-list"], timeout=60)
    todo = [f["name"] for f in json.loads(out.strip().splitlines()[-1])]
    formats_load_induced = 0
    while todo:
        rc, out = vlib.sh([fbin, "-outdir", c03dir, "-seed", str(ctx.seed), "-n", str(n), "-mal", str(mal), "-formats", ",".join(todo)], timeout=600)
        ran = set(re.findall(r"^format=(\w+) cases=", out, re.M))
        formats_load_induced += sum(int(k) for k in re.findall(r"^load_induced_timeouts format=\w+ n=(\d+)", out, re.M))
        if rc == 3:
            # an Extract call exceeded the generator harness' own deadline: that is a hang of a built-in extractor on a concrete file
            m = re.search(r"^timeout format=(\w+) case=(\d+)", out, re.M)
            if not m:
                raise RuntimeError("formats harness timeout report not understood: " + out[-800:])
            last = [json.loads(l) for l in open(os.path.join(c03dir, "C03_%s.jsonl" % m.group(1)))][-1]
            ctx.violation({"kind": "extractor-hang", "extractor_format": m.group(1), "path": last.get("path"),
                           "case": {"format": last.get("format"), "path": last.get("path"), "bytes_b64": last.get("bytes_b64"), "text": last.get("text"),
                                    "stream": last.get("stream"), "tags": last.get("tags")},
                           "observed": last.get("observed"),
                           "explanation": "Extract did not return within the deadline on this generated (C03 generator) file: the extractor hangs; "
                                          "replay with `bin/check C03 --replay` on a file {\"case\": ...} or feed bytes_b64 to fuzzextract -replay"})
            todo = [f for f in todo if f not in ran]
        elif rc != 0:
            raise RuntimeError("formats harness (C03 seed generation) failed: " + out[-2000:])
        else:
            todo = []
    for f in os.listdir(c03dir):
        if f.endswith(".v"):
            os.remove(os.path.join(c03dir, f))
    timeout_s = 10 if thorough else 3

    # ---- regression corpus (run first): witnesses of findings fixed in /repo must no longer crash or hang
    fixed_entries = []
    try:
        fixed_entries = [e for e in json.load(open(os.path.join(vlib.VERIF, "KNOWN_FINDINGS.d", "C02.json"))) if e.get("status") == "fixed"]
    except FileNotFoundError:
        pass
    rjobs = [(e, i, w) for e in fixed_entries for i, w in enumerate(_witnesses(e))]

    def rone(job):
        e, i, w = job
        kind, top, outp = replay_case(binp, witness_case(w), timeout_s, d, "fixed_%s_%d" % (e["id"], i))
        return e, i, w, kind, top, outp

    regression_status = {}
    with ThreadPoolExecutor(max_workers=8) as ex:
        for e, i, w, kind, top, outp in ex.map(rone, rjobs):
            bad = kind in ("panic", "timeout", "worker_death", "harness_error")
            regression_status.setdefault(e["id"], []).append({"witness": i, "extractor": w["extractor"], "observed": kind,
                                                              "fix_commit": e.get("fix_commit"), "ok": not bad})
            if bad:
                ctx.violation({"kind": "regression-of-fixed-finding", "finding": e["id"], "fix_commit": e.get("fix_commit"), "witness_index": i,
                               "case": witness_case(w), "observed": kind, "top_frame": top, "replay_output": outp[-2500:], "timeout_s": timeout_s,
                               "explanation": "the witness of a defect that was fixed in /repo crashes or hangs the extractor again"})
    ctx.coverage["regression_corpus"] = regression_status
    ctx.log("regression corpus: %d witnesses of %d fixed findings replayed" % (len(rjobs), len(fixed_entries)))

    # ---- known findings: replay every recorded witness (must still fail)
    known = ctx.known_findings()
    jobs = []
    for e in known:
        for i, w in enumerate(_witnesses(e)):
            jobs.append((e, i, w))

    def one(job):
        e, i, w = job
        kind, top, outp = replay_case(binp, witness_case(w), timeout_s, d, "%s_%d" % (e["id"], i))
        return e, i, w, kind, top, outp

    known_status = {}
    with ThreadPoolExecutor(max_workers=8) as ex:
        for e, i, w, kind, top, outp in ex.map(one, jobs):
            expect = _as_list(w.get("expect") or e.get("expect") or ["panic"])
            ok = kind in expect
            known_status.setdefault(e["id"], []).append({"witness": i, "extractor": w["extractor"], "observed": kind, "expected": expect,
                                                         "top_frame": top, "still_fails": ok})
            if not ok:
                ctx.violation({"kind": "known-finding-stale", "finding": e["id"], "witness_index": i, "case": witness_case(w),
                               "observed": kind, "expected": expect, "replay_output": outp[-2500:], "timeout_s": timeout_s,
                               "explanation": "the recorded witness of this known finding no longer fails on the implementation "
                                              "(fixed, or the defect moved): KNOWN_FINDINGS.d/C02.json is out of date"}, nofail=True)
    for e in known:
        if all(s["still_fails"] for s in known_status.get(e["id"], [])):
            ctx.print_known(e)
    ctx.coverage["known_findings_status"] = known_status
    for e in known:
        rt = e.get("refuted_theorem")
        if rt and pa["ok"] and rt not in pa["theorems"]:
            ctx.notes.append("known finding %s names refuted_theorem %s, which is not among the theorems of %s" % (e["id"], rt, PROPS))

    # ---- the fuzz run (SEARCH)
    budget = 720 if thorough else 40
    outjson = os.path.join(d, "fuzz.json")
    cmd = [binp, "-seed", str(ctx.seed), "-workers", "8", "-budget", str(budget), "-timeout", str(timeout_s), "-memlimit", "4096",
           "-c03dir", c03dir, "-out", outjson, "-findingsdir", fdir, "-repo", vlib.REPO, "-minimize", "60" if thorough else "6"]
    rc, out = vlib.sh(cmd, timeout=budget + 900)
    ctx.log("fuzzextract rc=%d: %s" % (rc, (out.strip().splitlines() or [""])[0][:300]))
    if rc != 0 or not os.path.exists(outjson):
        raise RuntimeError("fuzzextract failed: " + out[-3000:])
    fz = json.load(open(outjson))
    sysp = fz.get("systematic_pass") or {}
    ctx.log("systematic pass (deterministic, before the budgeted random phase): value_edit_cases=%s line_edit_cases=%s archive_edit_cases=%s unmutated_seed_cases=%s complete=%s handed out after %ss"
            % (sysp.get("value_edit_cases"), sysp.get("line_edit_cases"), sysp.get("archive_edit_cases"), sysp.get("unmutated_seed_cases"), sysp.get("handed_out_completely"), sysp.get("handout_finished_after_s")))
    if not sysp.get("handed_out_completely"):
        raise RuntimeError("fuzzextract did not hand out the complete systematic pass")

    # ---- verdict
    new, known_hits, unconfirmed = [], {}, []
    for f in fz["findings"]:
        ent = next((e for e in known if matches_signature(f, e)), None)
        if ent is not None:
            k = known_hits.setdefault(ent["id"], {"occurrences": 0, "extractors": set(), "kinds": set()})
            k["occurrences"] += f["count"]
            k["extractors"].add(f["extractor"])
            k["kinds"].add(f["kind"])
            continue
        if not f.get("confirmed"):
            unconfirmed.append(f)
            continue
        new.append(f)
    for f in new[:12]:
        data = base64.b64decode(f["case"]["input_b64"])
        ctx.violation({
            "kind": "fuzz-finding-" + f["kind"], "case": f["case"], "extractor": f["extractor"], "path": f["path"],
            "input_sha256": f["input_sha256"], "input_size": len(data), "input_quoted": f["input_prefix"],
            "os_release_quoted": f.get("os_release_quoted"), "message": f["message"], "stack": f["stack"], "top_frame": f["top_frame"],
            "mutation_trail": f["mutation_trail"], "seed_file": f["seed_file"], "occurrences": f["count"], "timeout_s": timeout_s,
            "explanation": "found by the fuzz SEARCH: the real Extract %s on this input (re-run from this explicit form after the run: "
                           "reproduced). Not listed in KNOWN_FINDINGS.d/C02.json." %
                           {"panic": "panicked", "timeout": "did not return within the deadline", "worker_death": "killed the process"}[f["kind"]]})
    proof_broken_if_needed(bool(new))
    if unconfirmed:
        ctx.notes.append("%d fuzz observation(s) did not reproduce when re-run alone and are NOT counted as violations (slow call under "
                         "load, or a crash that depends on process state): %s" %
                         (len(unconfirmed), "; ".join("%s %s %s" % (f["extractor"], f["kind"], f.get("confirm_note", "")) for f in unconfirmed[:6])))
    if fz.get("unattributed_worker_deaths"):
        ctx.notes.append("%d worker death(s) happened between two Extract calls (no single input to blame): %s" %
                         (fz["unattributed_worker_deaths"], (fz.get("unattributed_worker_death_samples") or [{}])[0].get("message", "")[:300]))
    if fz.get("harness_errors"):
        ctx.notes.append("harness errors: %s" % "; ".join(h[:200] for h in fz["harness_errors"][:3]))

    # ---- evidence
    tot = fz["total"]
    per = {}
    for name, s in fz["per_extractor"].items():
        per[name] = {k: s[k] for k in ("calls", "ok", "ok_with_packages", "errors", "panics", "timeouts", "worker_deaths", "distinct_inputs",
                                       "nontrivial", "path_not_required", "seeds", "seed_source_calls", "paths_used", "cpu_s", "systematic_cases", "engine_runs", "engine_runs_with_packages")}
    samples = list(fz.get("samples") or [])[:10]
    for f in fz["findings"][:4]:
        samples.append({"extractor": f["extractor"], "path": f["path"], "mutation_trail": f["mutation_trail"], "seed_file": f["seed_file"],
                        "input_prefix": f["input_prefix"][:200], "input_size": f["input_size"], "os_release": f.get("os_release_quoted"),
                        "outcome": f["kind"], "message": f["message"][:200], "top_frame": f["top_frame"], "occurrences": f["count"]})
    ctx.coverage.update({
        "evaluations": tot["calls"],
        "distinct_nontrivial": tot["nontrivial"],
        "rule": "a case is one call of a real extractor's FileRequired+Extract (fresh instance) on (path, bytes[, etc/os-release]) derived from "
                "(seed, extractor, index) by structure-aware mutation of a seed file; " + fz["nontrivial_rule"],
        "samples": samples,
        "exhaustive": False,
        "input_distribution": {"per_extractor": per, "mutation_operators": fz["mutation_histogram"], "input_sizes": fz["input_size_histogram"],
                               "seed_files": fz["seed_files"], "totals": tot},
        "systematic_pass": sysp,
        "result_validation": fz.get("result_validation"),
        "load_induced_timeouts": {"fuzzextract": fz.get("load_induced_timeouts", 0), "formats_harness": formats_load_induced,
                                  "rule": fz.get("timeout_rule", "") + "; formats harness (one call at a time in its own process): hang only if the process burned > 2.4 s CPU "
                                          "since the call started or the call is still running after 20 s"},
        "fuzz": {"extractors_fuzzed": fz["extractors_fuzzed"], "skipped_extractors": fz["skipped_extractors"], "budget_s": budget,
                 "timeout_s": timeout_s, "memlimit_mib": 4096, "workers": 8, "calls_per_second": fz["calls_per_second"],
                 "wall_s": fz["wall_s"], "worker_restarts": fz["worker_restarts"],
                 "findings_total": len(fz["findings"]), "findings_new": len(new), "findings_unconfirmed": len(unconfirmed),
                 "findings_matching_known": {k: {"occurrences": v["occurrences"], "extractors": sorted(v["extractors"]), "kinds": sorted(v["kinds"])}
                                             for k, v in known_hits.items()},
                 "unattributed_worker_deaths": fz.get("unattributed_worker_deaths", 0)},
        "proved_parser_models": {"theorems": total_thms, "parsers": parsers},
        "explanation": "PROVED (Coq, all inputs): the %d byte-level parser models %s never reach Panic on ANY byte string and terminate "
                       "(structural recursion)%s. NOT PROVED - SEARCH ONLY: the other %d extractors and the real Go implementations of "
                       "the modelled parsers themselves were exercised by a recover-and-watchdog fuzz run of %d Extract calls (%d distinct non-trivial inputs, "
                       "%.0f calls/s, per-call deadline %d s, 4 GiB address-space limit per worker); fuzzing can miss inputs, so for those "
                       "extractors this run shows only that none of the inputs tried crashed or hung them apart from the findings listed."
                       % (len(parsers), ", ".join(parsers), " and the engine confines a failing Extract (Walk/Props_C02_engine.v)" if engine_present
                          else " (engine confinement theorem not present in this tree)", fz["extractors_fuzzed"] - len(parsers), tot["calls"],
                          tot["nontrivial"], fz["calls_per_second"], timeout_s),
    })


def replay(ctx, path):
    obj = json.load(open(path))
    if "engine_case" in obj:
        wbin, out = ctx.harness_build("walk")
        for label in ("engine_case", "counterfactual_case"):
            cq, impl = eng._replay(wbin, {k: v for k, v in obj[label].items() if k != "obs"}, os.path.join(vlib.BUILD, "cases"), "replay_" + label)
            print(label, "implementation:", json.dumps(impl))
        F = {k: v for k, v in obj["engine_case"].items() if k != "obs"}
        S = {k: v for k, v in obj["counterfactual_case"].items() if k != "obs"}
        _, fo = eng._replay(wbin, F, os.path.join(vlib.BUILD, "cases"), "replay_f")
        _, so = eng._replay(wbin, S, os.path.join(vlib.BUILD, "cases"), "replay_s")
        print("oracle problems:", json.dumps(eng.oracle(F, S, fo, so, obj["meta"]), indent=1))
        return 0
    if "scenario" in obj:
        ebin, out = ctx.harness_build("engineconf")
        rc, out = vlib.sh([ebin, "-replay", path])
        print(out)
        return 0
    binp, out = ctx.harness_build("fuzzextract")
    if binp is None:
        print(out[-3000:])
        return 1
    obj = json.load(open(path))
    if "case" not in obj:
        print("replay file has no concrete case (kind=%s): nothing to run" % obj.get("kind"))
        print(json.dumps({k: obj[k] for k in obj if k not in ("log_tail",)}, indent=1)[:3000])
        return 0
    t = obj.get("timeout_s") or (10 if obj.get("tier") == "thorough" else 3)
    rc, out = vlib.sh([binp, "-replay", path, "-timeout", str(t), "-repo", vlib.REPO], timeout=t + 180)
    print(out)
    return 0

"""C06 - no filesystem side effects outside the directories designated for them."""
import json
import os
import re
import shutil
import tempfile
from concurrent.futures import ThreadPoolExecutor

import vlib

LEVEL = "proof"
PROPS = "Contain/Props_C06.v"
COQ_FILES = ["Contain/PathBytes.v", "Contain/PathBytesProofs.v", "Contain/Model.v", "Contain/Proofs.v", "Contain/FullProofs.v", "Contain/LexProofs.v",
             "Contain/Cases.v", "Contain/Props_C06.v"]
KNOWN_FILE = os.path.join(vlib.VERIF, "KNOWN_FINDINGS.d", "C06.json")

META = {
    "technique": "Coq proofs over a byte-level path algebra (path.Clean/Join/Dir/Base, strings.HasPrefix) and an abstract "
                 "file system (Dir|File|Link, fuelled symlink walk) + vm_compute correspondence against the real "
                 "unpack.UnpackSquashed*/image.FromV1Image/FromTarball/CleanUp run in a sandbox with before/after snapshots",
    "level_text": "Theorems: layer_write_contained (for ALL entry names the layer-scanning writer's real path is the layer "
                  "directory or below), layer_run_contained / cleanup_removes_all (file-system level), and for unpack.go at FULL "
                  "STRENGTH (any names, link targets, types, orders, passes, requirers, limits, also failing runs; after fixes "
                  "c7e8b5e1 + 05026580 + 7b96bcf8): unpack_contained (every changed path is the target or below it) and "
                  "unpack_links_inside (no link left below the target resolves outside it); unpack_lexical_is_physical / "
                  "unpack_links_inside_on_D2 (entry names that avoid link names: links sit at their lexical path and their stored targets stay "
                  "inside lexically, link targets unrestricted); target_outside_root_sound. Model = "
                  "implementation is re-established on every run by vm_compute on the exact tar streams the real code was run on "
                  "(final tree, error flag, link resolutions); the former defect witnesses form a regression corpus held to the "
                  "full property. PARTIAL: the scan half (extractors never write into the scanned tree / leave temp files) is a "
                  "snapshot oracle only.",
    "level_note": "Trusted: Coq kernel + vm_compute; Go harness harness/cmd/contain (sandbox, snapshots, tar generation); the OS and "
                  "Go stdlib semantics of lstat/mkdir/symlink/open/MkdirAll/EvalSymlinks/WalkDir are MODELLED (Model.v walk, "
                  "mk_prefixes) and tied only by the correspondence; go-containerregistry mutate.Extract (squashing) is an oracle: "
                  "the model consumes the flattened stream it produced. SymlinkRetain and SymlinkIgnore are both modelled (kread from the "
                  "working directory for relative targets). Not modelled: relative target directories (every path would be cwd-relative, "
                  "filepath.Abs/EvalSymlinks return forms differ), non-ASCII names, concurrent processes. Scan half: oracle only (partial).",
    "design_ref": "DESIGN.md section 5 C06",
}

THEOREMS = ["layer_write_contained", "layer_run_contained", "cleanup_removes_all", "unpack_contained",
            "unpack_links_inside", "unpack_lexical_is_physical", "unpack_links_inside_on_D2", "unpack_contained_on_D", "unpack_links_inside_on_D", "target_outside_root_sound"]

CORR_NAME = ("unpack.UnpackSquashed/UnpackSquashedFromTarball, image.FromV1Image/FromTarball/CleanUp, path.Clean/Join, "
             "filepath.Dir, path.Base, symlink.TargetOutsideRoot (Go) vs Contain.Model unpack_all / image_run / PathBytes (Coq, vm_compute)")

SIZES = {
    "quick": {"unpack": 260, "scenario": 180, "indomain": 160, "linkshape": 220, "image": 220, "paths": 2500, "scan": 1},
    "thorough": {"unpack": 4000, "scenario": 2000, "indomain": 2000, "linkshape": 3000, "image": 3000, "paths": 30000, "scan": 12},
}


def describe(c):
    return {k: v for k, v in c.items() if k not in ("obs", "obs2")} | {"obs": c.get("obs"), "obs2": c.get("obs2")}


def split_chunks(txt):
    header = txt[:txt.index("(*END-HEADER*)")]
    chunks = re.findall(r"(Definition ((ucases|lcases|pcases)_(\d+)) : list \w+ :=\n.*?\]\.\n)", txt, re.S)
    return header, chunks


PER = {"ucases": 20, "lcases": 20, "pcases": 250}


def eval_chunks(ctx, vfile, tag="C06"):
    txt = open(vfile).read()
    header, chunks = split_chunks(txt)

    def one(k):
        body, name, kind, num = chunks[k]
        pre = {"ucases": "ucase", "lcases": "lcase", "pcases": "pcase"}[kind]
        v = header + body
        v += "Definition corr_bad := Eval vm_compute in bad_indices %s_model_ok %s 0.\nPrint corr_bad.\n" % (pre, name)
        v += "Definition spec_bad := Eval vm_compute in bad_indices %s_spec_ok %s 0.\nPrint spec_bad.\n" % (pre, name)
        if kind == "ucases":
            v += "Definition out_d := Eval vm_compute in bad_indices ucase_in_D %s 0.\nPrint out_d.\n" % name
            v += "Definition spec2_bad := Eval vm_compute in bad_indices ucase_spec2_ok %s 0.\nPrint spec2_bad.\n" % name
            v += "Definition unclaimed2 := Eval vm_compute in bad_indices ucase_links_claimed %s 0.\nPrint unclaimed2.\n" % name
            v += "Definition spec3_bad := Eval vm_compute in bad_indices ucase_spec3_ok %s 0.\nPrint spec3_bad.\n" % name
        rc, out = ctx.run_cases("%s_%s" % (tag, name), v)
        cb = vlib.parse_printed_list(out, "corr_bad")
        sb = vlib.parse_printed_list(out, "spec_bad")
        od = vlib.parse_printed_list(out, "out_d") if kind == "ucases" else []
        s2 = vlib.parse_printed_list(out, "spec2_bad") if kind == "ucases" else []
        u2 = vlib.parse_printed_list(out, "unclaimed2") if kind == "ucases" else []
        s3 = vlib.parse_printed_list(out, "spec3_bad") if kind == "ucases" else []
        if rc != 0 or cb is None or sb is None or od is None or s2 is None or u2 is None or s3 is None:
            raise RuntimeError("cases shard %s failed: %s" % (name, out[-2000:]))
        off = int(num) * PER[kind]
        return kind, [off + i for i in cb], [off + i for i in sb], [off + i for i in od], [off + i for i in s2], [off + i for i in u2], [off + i for i in s3]

    res = {"ucases": ([], [], [], [], [], []), "lcases": ([], [], [], [], [], []), "pcases": ([], [], [], [], [], [])}
    with ThreadPoolExecutor(max_workers=14) as ex:
        for kind, cb, sb, od, s2, u2, s3 in ex.map(one, range(len(chunks))):
            res[kind][5].extend(s3)
            res[kind][0].extend(cb)
            res[kind][1].extend(sb)
            res[kind][2].extend(od)
            res[kind][3].extend(s2)
            res[kind][4].extend(u2)
    return res


def run_harness(ctx, binp, sandbox, vfile, side, sizes, known):
    args = [binp, "-sandbox", sandbox, "-out", vfile, "-jsonl", side, "-seed", str(ctx.seed),
            "-unpack", str(sizes["unpack"]), "-scenario", str(sizes["scenario"]), "-indomain", str(sizes["indomain"]), "-linkshape", str(sizes["linkshape"]),
            "-image", str(sizes["image"]), "-paths", str(sizes["paths"])]
    if known:
        args += ["-known", known]
    rc, out = vlib.sh(args, timeout=3000)
    if rc != 0:
        raise RuntimeError("harness failed: " + out[-3000:])
    return out


def run(ctx):
    bad = ctx.gate(COQ_FILES)
    if bad:
        ctx.violation({"kind": "gate", "hits": bad}, nofail=True)
    pa = ctx.prove(PROPS, clean=(COQ_FILES if ctx.tier == "thorough" else False))
    ctx.log("proof ok=%s obligations=%d closed=%d" % (pa["ok"], pa["obligations"], pa["print_assumptions_closed"]))
    vlib.proof_coverage(ctx, pa)
    # the cases protocol (Cases.v) is not a dependency of the Props file: build it explicitly
    rc, out = ctx.coq_make(["theories/Contain/Cases.vo"])
    if rc != 0:
        raise RuntimeError("Contain/Cases.v failed to build: " + out[-2000:])
    if ctx.tier == "thorough" and pa["ok"]:
        chk = ctx.coqchk(["Scalibr.Contain.Props_C06"])
        ctx.coverage["coqchk"] = chk
        ctx.log("coqchk rc=%s (%.0fs)" % (chk["rc"], chk["wall_s"]))
        if chk["rc"] != 0:
            ctx.violation({"kind": "proof-broken", "stage": "coqchk", "log_tail": chk["output_tail"]}, nofail=True)
    binp, out = ctx.harness_build("contain")
    if binp is None:
        ctx.violation({"kind": "harness-build-failed", "log": out[-3000:], "correspondence": CORR_NAME,
                       "theorems_no_longer_tied_to_code": THEOREMS}, nofail=True)
        ctx.coverage["trusted_base"] = vlib.std_trusted_base(pa)
        return
    d = os.path.join(vlib.BUILD, "cases")
    os.makedirs(d, exist_ok=True)
    # per-run file names: several C06 runs (quick, thorough, seed tests) may be active at the same time
    run_tag = "C06r%d" % os.getpid()
    vfile = os.path.join(d, run_tag + "_cases.v")
    side = os.path.join(d, run_tag + "_cases.jsonl")
    sizes = SIZES[ctx.tier]
    all_entries = [e for e in (json.load(open(KNOWN_FILE)) if os.path.exists(KNOWN_FILE) else []) if e.get("property") == ctx.pid]
    known_entries = [e for e in all_entries if e.get("status", "known") == "known"]
    fixed_entries = [e for e in all_entries if e.get("status") == "fixed"]
    sandbox = tempfile.mkdtemp(prefix="c06sb-")
    try:
        # regression corpus (witnesses of fixed defects) first, then the witnesses of the known findings
        image_known = ([dict(e, prefix="regress") for e in fixed_entries if e["witness"].get("half") != "scan"] +
                       [dict(e, prefix="known") for e in known_entries if e["witness"].get("half") != "scan"])
        kfile = None
        if image_known:
            kfile = os.path.join(d, run_tag + "_known.json")
            json.dump(image_known, open(kfile, "w"))
        os.makedirs(os.path.join(sandbox, "img"))
        hout = run_harness(ctx, binp, os.path.join(sandbox, "img"), vfile, side, sizes, kfile)
        ctx.log("harness: " + hout.strip().splitlines()[-1])
        scan = run_scan(ctx, binp, sandbox, sizes["scan"])
    finally:
        shutil.rmtree(sandbox, ignore_errors=True)
    cases = [json.loads(l) for l in open(side)]
    idx = {"ucases": [], "lcases": [], "pcases": []}
    for i, c in enumerate(cases):
        op = c["op"]
        idx["ucases" if op.startswith("unpack") else "lcases" if op.startswith("image") else "pcases"].append(i)
    res = eval_chunks(ctx, vfile, tag=run_tag)
    for fn in os.listdir(d):
        if fn.startswith(run_tag + "_") or fn.startswith("." + run_tag + "_"):
            try:
                os.remove(os.path.join(d, fn))
            except OSError:
                pass
    corr_bad, spec_bad, out_d = [], [], set()
    for kind in ("ucases", "lcases", "pcases"):
        corr_bad += [idx[kind][i] for i in res[kind][0]]
        spec_bad += [idx[kind][i] for i in res[kind][1]]
        out_d |= {idx[kind][i] for i in res[kind][2]}
    # lexical kept-link oracle: claimed on every unpack case without a write-through-link shape
    spec2_bad = sorted(idx["ucases"][i] for i in res["ucases"][3])
    spec3_bad = sorted(idx["ucases"][i] for i in res["ucases"][5])
    unclaimed2 = {idx["ucases"][i] for i in res["ucases"][4]}
    corr_bad.sort()
    spec_bad.sort()
    ctx.log("cases=%d corr_bad=%d spec_bad=%d (outside D: %d of %d unpack cases)" % (
        len(cases), len(corr_bad), len(spec_bad), len(out_d), len(idx["ucases"])))

    # --- known findings: replayed witnesses come first in the case list
    stale = []
    known_idx = set()
    for e in known_entries:
        if e["witness"].get("half") == "scan":
            kw = (scan.get("known_witnesses") or {}).get(e["id"])
            if kw and kw.get("still_fails"):
                ctx.print_known(e)
            else:
                stale.append((e, "the scan witness no longer changes the scanned tree"))
            continue
        hit = [i for i, c in enumerate(cases) if c.get("stream") == "known:" + e["id"]]
        if not hit:
            stale.append((e, "witness was not replayed"))
            continue
        i = hit[0]
        known_idx.add(i)
        if i in spec_bad and i not in corr_bad and i in out_d:
            ctx.print_known(e)
        else:
            why = ("the witness no longer violates the spec on the implementation" if i not in spec_bad else
                   "the model does not reproduce the implementation on the witness" if i in corr_bad else
                   "the witness lies inside the domain D of the positive theorem")
            stale.append((e, why, describe(cases[i])))
    # spec failures outside D are the recorded defect classes (domain of unpack_contained_on_D);
    # inside D, on image cases and on path cases they are violations
    new_spec_bad = sorted(set([i for i in spec_bad if i not in out_d] + spec2_bad + spec3_bad))
    # regression corpus: the witnesses of fixed defects are held to the property at full strength
    scan_regress_bad = []
    for e in fixed_entries:
        if e["witness"].get("half") == "scan":
            kw = (scan.get("known_witnesses") or {}).get(e["id"])
            if kw is None or kw.get("still_fails"):
                scan_regress_bad.append({"half": "scan", "regression_of": e["id"], "fix_commit": e.get("fix_commit"),
                                         "witness": e["witness"], "changes": (kw or {}).get("changes")})
            continue
        hit = [i for i, c in enumerate(cases) if c.get("stream") == "regress:" + e["id"]]
        if not hit:
            stale.append((e, "regression witness was not replayed"))
            continue
        if e.get("regression_oracle", "full") == "full" and hit[0] in spec_bad:
            new_spec_bad = sorted(set(new_spec_bad + [hit[0]]))
    outside_fail = [i for i in spec_bad if i in out_d]
    if not [e for e in known_entries if e["witness"].get("half") != "scan"]:
        # no unpack finding is on file any more: the oracle is claimed at full strength (theorems
        # unpack_contained / unpack_links_inside), inside and outside the old domain D
        new_spec_bad = sorted(set(spec_bad + spec2_bad + spec3_bad))
    scan_bad = scan.get("bad", []) + scan_regress_bad
    for b in scan_bad[:3]:
        ctx.violation({"kind": "spec-failure", "half": "scan", "case": b,
                       "explanation": "a scan with built-in extractors changed the scanned tree, the working directory or left "
                                      "something in TMPDIR"})
    # --- evidence
    seen, streams = set(), {}
    entries_hist, type_hist = {}, {}
    for i, c in enumerate(cases):
        streams[c["stream"].split(":")[0]] = streams.get(c["stream"].split(":")[0], 0) + 1
        if c["op"] == "path":
            p = c["p"]
            if ".." in p["a"] + p["b"] or p["a"].startswith("/") or "target" in p["a"] + p["b"]:
                seen.add(vlib.sha(["path", p["a"], p["b"]]))
            continue
        n = sum(len(l or []) for l in c["layers"])
        entries_hist[n] = entries_hist.get(n, 0) + 1
        for l in c["layers"]:
            for e in (l or []):
                type_hist[e["type"]] = type_hist.get(e["type"], 0) + 1
        if c.get("nontrivial"):
            seen.add(c["input_hash"])
    nu = len(idx["ucases"])
    sample_ix = [j for j in (idx["ucases"][:1] + idx["ucases"][nu // 2:nu // 2 + 1] + idx["lcases"][:1] + idx["pcases"][:1])]
    ctx.coverage.update({
        "evaluations": len(cases) + scan.get("runs", 0),
        "distinct_nontrivial": len(seen),
        "rule": "a case is one tar stream / image (1-3 layers, regular/dir/symlink/hardlink/fifo entries in random order) run through "
                "the real UnpackSquashed(FromTarball) or FromV1Image/FromTarball+CleanUp in a fresh sandbox, or one (a,b) string pair "
                "for the path helpers; distinct by SHA-256 of (op, layers, passes, limits, sandbox variant); non-trivial when some "
                "entry name or link target contains '..', a leading '/', or a prefix-confusable sibling name (target*)",
        "samples": [describe(cases[j]) for j in sample_ix],
        "exhaustive": False,
        "input_distribution": {"streams": streams, "entries_per_case": {str(k): v for k, v in sorted(entries_hist.items())},
                               "entry_types": type_hist,
                               "unpack_cases": nu, "unpack_cases_outside_D": len(out_d),
                               "fraction_rejected_by_D": round(len(out_d) / max(1, nu), 3),
                               "spec_failures_outside_D_(known_defect_classes)": len(outside_fail),
                               "kept_link_oracle_claimed_cases": nu - len(unclaimed2),
                               "kept_link_oracle_claimed_outside_D": len([i for i in out_d if i not in unclaimed2]),
                               "kept_link_oracle_failures": len(spec2_bad),
                               "no_file_outside_oracle_failures_(claimed_on_all_unpack_cases)": len(spec3_bad),
                               "calls_returning_error": sum(1 for c in cases if c.get("err"))},
        "vm_compute_cases": len(cases),
        "scan_half": scan,
        "regression_corpus": [{"id": e["id"], "fix_commit": e.get("fix_commit"), "oracle": e.get("regression_oracle", "full")} for e in fixed_entries],
        "kept_link_oracle": "on every unpack case whose entry names do not pass through the name of a link entry (inside AND outside D): "
                            "no link left below the target may have a stored target that, read lexically from the link's own directory, "
                            "climbs above the target (relative) or is not below the target (absolute); this is theorem unpack_links_inside_on_D2 "
                            "(via unpack_lexical_is_physical + target_outside_root_sound); unclaimed region = entry names passing through a link entry's name",
        "explanation": "correspondence (model = implementation) is checked on every case incl. outside D; the containment oracle is "
                       "claimed on every image/layer case, every path case and on unpack cases inside D; outside D the recorded "
                       "defects apply (KNOWN_FINDINGS.d/C06.json, replayed every run). Scan half: oracle only (partial).",
    })
    ctx.coverage["trusted_base"] = vlib.std_trusted_base(pa, [
        "Go harness harness/cmd/contain (sandbox construction, tar/image generation, recursive snapshots, virtualised names)",
        "modelled, tied by correspondence only: kernel path resolution (40 links, NAME_MAX/PATH_MAX), os.MkdirAll, "
        "filepath.EvalSymlinks (255 links), filepath.WalkDir order, os.WriteFile/Symlink/Remove",
        "oracle: go-containerregistry mutate.Extract / tarball (squashing, image encoding); archive/tar reader",
        "uuid marker of TargetOutsideRoot replaced by a fixed fresh marker in the model",
        "scan half: snapshot oracle only, no model (partial)"])
    ctx.assumptions += ["target directory is passed as an absolute path; SymlinkResolution = SymlinkRetain or SymlinkIgnore",
                        "Requirer = FileRequirerAll in the harness (the model keeps the requirer as a parameter)",
                        "ExtractDir is a fresh os.MkdirTemp directory (hypothesis of layer_run_contained)",
                        "names and link targets are ASCII without NUL"]
    if stale:
        for s in stale:
            ctx.violation({"kind": "known-finding-stale", "finding": s[0]["id"], "why": s[1],
                           "stale_theorem": s[0].get("refuted_theorem"), "case": s[2] if len(s) > 2 else None,
                           "correspondence": CORR_NAME}, nofail=True)
    if scan_bad:
        return
    vlib.standard_decide(ctx, pa, corr_bad, new_spec_bad, cases, describe, THEOREMS, CORR_NAME)


def run_scan(ctx, binp, sandbox, rounds):
    """Scan half (oracle only): fixture trees scanned with offline built-in extractors through DirFS."""
    sdir = os.path.join(sandbox, "scan")
    os.makedirs(sdir, exist_ok=True)
    outp = os.path.join(vlib.BUILD, "cases", "C06_scan_%d.json" % os.getpid())
    rc, out = vlib.sh([binp, "-sandbox", sdir, "-scanmode", "-scanout", outp, "-seed", str(ctx.seed),
                       "-scanrounds", str(rounds), "-repo", vlib.REPO], timeout=1500)
    if rc != 0:
        raise RuntimeError("scan harness failed: " + out[-3000:])
    res = json.load(open(outp))
    os.remove(outp)
    ctx.log("scan half: runs=%d files=%d extractors=%d bad=%d" % (res["runs"], res["files"], res["extractors"], len(res["bad"])))
    return res


def replay(ctx, path):
    binp, out = ctx.harness_build("contain")
    obj = json.load(open(path))
    case = obj.get("case", obj)
    if case.get("half") == "scan" or obj.get("half") == "scan":
        print("scan-half violation: re-run `bin/check C06` (the scan oracle is deterministic for a seed); case:")
        print(json.dumps(case, indent=1))
        return 0
    if case.get("op") == "path":
        p = case["p"]
        v = ("From Coq Require Import List ZArith NArith Bool.\nFrom Scalibr Require Import Contain.PathBytes Contain.Model Contain.Cases.\n"
             "Import ListNotations.\nOpen Scope N_scope.\n"
             "Definition a : bytes := %s.\nDefinition b : bytes := %s.\n"
             "Definition model := Eval vm_compute in (clean a, join2 a b, dir_of a, base_of a, target_outside_root MARK a b).\nPrint model.\n"
             % (coq_bytes(p["a"]), coq_bytes(p["b"])))
        print("implementation:", json.dumps(p))
        rc, out = ctx.run_cases("C06_replay_%d" % os.getpid(), v)
        print(out)
        return 0
    sandbox = tempfile.mkdtemp(prefix="c06sb-")
    try:
        tmp = os.path.join(sandbox, "case.json")
        json.dump({"case": case}, open(tmp, "w"))
        sb = os.path.join(sandbox, "sb")
        os.makedirs(sb)
        rc, out = vlib.sh([binp, "-sandbox", sb, "-replay", tmp])
    finally:
        shutil.rmtree(sandbox, ignore_errors=True)
    print(out)
    bpre = [l for l in out.splitlines() if l.startswith("coq-bpre: ")]
    uc = [l for l in out.splitlines() if l.startswith("coq-ucase: ")]
    lc = [l for l in out.splitlines() if l.startswith("coq-lcase: ")]
    if bpre and (uc or lc):
        v = ("From Coq Require Import List ZArith NArith Bool.\nFrom Scalibr Require Import Contain.PathBytes Contain.Model Contain.Cases.\n"
             "Import ListNotations.\nOpen Scope N_scope.\nDefinition bpre : path := %s.\n" % bpre[0][len("coq-bpre: "):])
        if uc:
            v += ("Definition c : ucase := %s.\nDefinition model := Eval vm_compute in uc_model c.\nPrint model.\n"
                  "Definition verdicts := Eval vm_compute in (ucase_model_ok c, ucase_spec_ok c, ucase_in_D c, ucase_links_claimed c, ucase_spec2_ok c, ucase_spec3_ok c).\nPrint verdicts.\n"
                  % uc[0][len("coq-ucase: "):])
        else:
            v += ("Definition c : lcase := %s.\nDefinition model := Eval vm_compute in image_run (lc_extract c) (lc_max c) MARK (lc_init c) (lc_layers c).\nPrint model.\n"
                  "Definition verdicts := Eval vm_compute in (lcase_model_ok c, lcase_spec_ok c).\nPrint verdicts.\n"
                  % lc[0][len("coq-lcase: "):])
        rc, out = ctx.run_cases("C06_replay_%d" % os.getpid(), v)
        print("model / (model_ok, spec_ok[, in_D, kept-link oracle claimed, kept-link oracle ok, no-file-outside ok]):")
        print(out)
    return 0


def coq_bytes(s):
    b = s.encode("utf8")
    return "(@nil N)" if not b else "[" + ";".join(str(x) for x in b) + "]%N"

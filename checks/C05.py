"""C05 - packages are attributed to the layer that introduced them."""
import json
import os
import shutil
from concurrent.futures import ThreadPoolExecutor

import vlib

LEVEL = "proof"
PROPS = "Trace/Props_C05.v"
COQ_FILES = ["Trace/Model.v", "Trace/Proofs.v", "Trace/Props_C05.v"]
THEOREMS = ["origin_correct", "origin_unique", "walk_eq_origin", "trace_one_eq_origin", "trace_eq_origin_on_D",
            "view_of_regular_location", "symlinked_location_refuted",
            "readded_attributed_to_readder", "untouched_layers_irrelevant", "align_history"]
CORR = ("Scanner.ScanContainer -> trace.PopulateLayerDetails (Go) on real images vs Trace.Model.trace_all / align "
        "(Coq, vm_compute)")

META = {
    "technique": "Coq proof that the backwards walk with skip branch and (location, layer) cache computes the brute-force "
                 "origin for every history + vm_compute correspondence against ScanContainer on real images",
    "level_text": "Theorem walk_eq_origin: over ANY sequence of views and ANY layer-diff test the loop of "
                  "PopulateLayerDetails returns origin = the earliest layer L with the package present in every view "
                  "L..last (origin_correct: the declarative, minimal value) whenever skipping is sound (skip_sound) and no "
                  "extraction cancels the context. trace_eq_origin_on_D instantiates it for images: any number of layers and "
                  "files, write / delete / untouched / empty layers, several packages per file, the same key in several "
                  "files, packages with several locations, any processing order, shared cache -- on the domain D (the "
                  "package's first location is never a symlink). Outside D the statement is refuted "
                  "(symlinked_location_refuted: known finding; the sorted-locations finding is fixed, 57324273). Corollaries: re-added "
                  "packages go to the re-adder, untouched/empty layers only shift indices, history alignment. Tied to the "
                  "code on every run by the real ScanContainer on generated images (exhaustive small histories, random "
                  "histories, multi-location, symlinked-location (ReadSymlinks) and context-cancelling streams).",
    "level_note": "Trusted: Coq kernel + vm_compute; Go harness (image building, a line extractor defined by the harness, "
                  "id mapping of diff IDs / commands); views are taken as the overlay of whole-file writes/deletes (their "
                  "correctness is C04's subject); one extractor per location (the cache key omits the extractor).",
    "design_ref": "DESIGN.md section 5 C05",
}


def _run_part(ctx, binp, tag, args, tmpdir):
    d = os.path.join(vlib.BUILD, "cases")
    prefix = os.path.join(d, "C05_%s" % tag)
    side = prefix + ".jsonl"
    env = dict(os.environ)
    os.makedirs(tmpdir, exist_ok=True)
    env["TMPDIR"] = tmpdir
    env["GOMAXPROCS"] = "2"
    rc, out = vlib.sh([binp, "-out", prefix, "-jsonl", side] + args, timeout=3000, env=env)
    shutil.rmtree(tmpdir, ignore_errors=True)
    if rc != 0:
        raise RuntimeError("harness part %s failed: %s" % (tag, out[-2000:]))
    summ = None
    for l in out.splitlines():
        if l.startswith("summary: "):
            summ = json.loads(l[len("summary: "):])
    if summ is None:
        raise RuntimeError("harness part %s: no summary: %s" % (tag, out[-500:]))
    res = {"tag": tag, "summary": summ, "side": side, "corr": [], "spec": []}
    per = summ["per_file"]
    for k, f in enumerate(summ["files"]):
        rc, cout = vlib.sh(["coqc", "-Q", os.path.join(vlib.COQ, "theories"), "Scalibr", f], cwd=d, timeout=3000)
        cb = vlib.parse_printed_list(cout, "corr_bad")
        sb = vlib.parse_printed_list(cout, "spec_bad")
        if rc != 0 or cb is None or sb is None:
            raise RuntimeError("cases file %s failed: %s" % (f, cout[-1500:]))
        res["corr"] += [k * per + i for i in cb]
        res["spec"] += [k * per + i for i in sb]
        res["outside_D"] = res.get("outside_D", 0) + (vlib.parse_printed_list(cout, "outside_D") or [0])[0]
        res["strict_bad"] = res.get("strict_bad", 0) + (vlib.parse_printed_list(cout, "strict_bad") or [0])[0]
        for ext in (".vo", ".vok", ".vos", ".glob"):
            try:
                os.remove(f[:-2] + ext)
            except FileNotFoundError:
                pass
    return res


def _views(case):
    """Per file: list of per-chain-layer contents (None = absent), following the history alignment."""
    hist, layers = case.get("history") or [], case.get("layers") or []
    nonempty = sum(1 for h in hist if not h["empty"])
    if nonempty == len(layers):
        chain, k = [], 0
        for h in hist:
            if h["empty"]:
                chain.append([])
            else:
                chain.append(layers[k] or [])
                k += 1
    else:
        chain = [l or [] for l in layers]
    out = {}
    for f in range(5):
        cur, vs, touched = None, [], 0
        for ops in chain:
            for o in ops:
                if o["file"] == f:
                    touched += 1
                    cur = tuple(o.get("pkgs") or []) if o["op"] == "write" else None   # a link shows nothing of its own
            vs.append(cur)
        out[f] = (vs, touched)
    return out


def _nontrivial(case):
    for f, (vs, touched) in _views(case).items():
        if touched < 2:
            continue
        for p in range(4):
            pres = [v is not None and p in v for v in vs]
            if any(a != b for a, b in zip(pres, pres[1:])):
                return True
    return False


def _replay_eval(ctx, binp, case_obj, name):
    p = os.path.join(vlib.BUILD, "cases", name + ".json")
    with open(p, "w") as f:
        json.dump({"case": case_obj}, f)
    rc, out = vlib.sh([binp, "-replay", p])
    if rc != 0:
        raise RuntimeError("replay failed: " + out[-1500:])
    impl = [l[len("implementation: "):] for l in out.splitlines() if l.startswith("implementation: ")]
    term = [l[len("coq-case: "):] for l in out.splitlines() if l.startswith("coq-case: ")]
    v = ("From Coq Require Import List NArith Bool.\nFrom Scalibr Require Import Trace.Model.\nImport ListNotations.\n"
         "Open Scope N_scope.\nDefinition c : tcase := %s.\n"
         "Definition flags := Eval vm_compute in [case_model_ok c; case_spec_ok c; case_spec_strict_ok c].\nPrint flags.\n"
         "Definition model := Eval vm_compute in match chain_layers c with Some h => map (details h) (trace_all h (case_pkgs c) [] false) | None => [] end.\nPrint model.\n"
         "Definition spec := Eval vm_compute in match chain_layers c with Some h => map (fun o => details h (origin (lview h (po_src o)) (length h) (po_pkg o))) (t_obs c) | None => [] end.\nPrint spec.\n"
         % term[0])
    rc, cout = ctx.run_cases(name, v)
    t = vlib.parse_printed_term(cout, "flags")
    flags = [x.strip() == "true" for x in (t or "").strip("[]").split(";")] if t else None
    return impl[0] if impl else None, cout, flags


def run(ctx):
    bad = ctx.gate(COQ_FILES)
    if bad:
        ctx.violation({"kind": "gate", "hits": bad}, nofail=True)
    pa = ctx.prove(PROPS, clean=(COQ_FILES if ctx.tier == "thorough" else False))
    ctx.log("proof ok=%s obligations=%d closed=%d" % (pa["ok"], pa["obligations"], pa["print_assumptions_closed"]))
    vlib.proof_coverage(ctx, pa)
    if ctx.tier == "thorough":
        chk = ctx.coqchk(["Scalibr.Trace.Model", "Scalibr.Trace.Proofs", "Scalibr.Trace.Props_C05"])
        ctx.coverage["coqchk"] = chk
        if chk["rc"] != 0:
            ctx.proof_ok = False
            pa["ok"] = False
            pa["log_tail"] = chk["output_tail"]
    tb_extra = [
        "Go harness harness/cmd/trace (images via go-containerregistry; package-list files read by a harness-defined line "
        "extractor; diff IDs and commands mapped to small ids)",
        "views = overlay of whole-file write/delete operations (C04's subject); extraction of a view = the list written",
        "premise: all packages of one location come from one extractor (the cache key omits the extractor)",
        "modelled, not verified: filesystem.Run (walk + extraction of the single path), sortResults, purl string equality",
    ]
    binp, out = ctx.harness_build("trace")
    if binp is None:
        ctx.violation({"kind": "harness-build-failed", "log": out[-3000:], "correspondence": CORR,
                       "theorems_no_longer_tied_to_code": THEOREMS}, nofail=True)
        ctx.coverage["trusted_base"] = vlib.std_trusted_base(pa, tb_extra)
        return
    d = os.path.join(vlib.BUILD, "cases")
    os.makedirs(d, exist_ok=True)
    for f in os.listdir(d):
        if f.startswith("C05_"):
            try:
                os.remove(os.path.join(d, f))
            except OSError:
                pass
    shm = "/dev/shm" if os.path.isdir("/dev/shm") else "/tmp"
    tmpbase = os.path.join(shm, "verif_c05_%d" % os.getpid())
    if ctx.tier == "thorough":
        nparts, exh, nrand, nvar = 14, 4, 30000, 4000
    else:
        nparts, exh, nrand, nvar = 7, 3, 700, 250
    parts = [("p%02d" % k, ["-seed", str(ctx.seed), "-random", str(nrand), "-exh", str(exh), "-variants", str(nvar),
                            "-parts", str(nparts), "-part", str(k), "-per", "150"]) for k in range(nparts)]
    results = []
    with ThreadPoolExecutor(max_workers=14) as ex:
        futs = [ex.submit(_run_part, ctx, binp, tag, args, os.path.join(tmpbase, tag)) for tag, args in parts]
        for f in futs:
            results.append(f.result())
    shutil.rmtree(tmpbase, ignore_errors=True)
    cases, corr_bad, spec_bad = [], [], []
    seen, streams, nlayers, evals, nontriv_cases = set(), {}, {}, 0, 0
    ops_hist = {"write": 0, "delete": 0, "empty_layers": 0, "untouched_file_layers": 0}
    for r in results:
        base = len(cases)
        with open(r["side"]) as f:
            for l in f:
                c = json.loads(l)
                c["history"] = c.get("history") or []
                c["layers"] = [x or [] for x in (c.get("layers") or [])]
                cases.append(c)
                streams[c["stream"]] = streams.get(c["stream"], 0) + 1
                n = len(c["history"]) if sum(1 for h in c["history"] if not h["empty"]) == len(c["layers"]) else len(c["layers"])
                nlayers[n] = nlayers.get(n, 0) + 1
                evals += len(c.get("obs") or [])
                ops_hist["empty_layers"] += sum(1 for h in c["history"] if h["empty"])
                for ops in c["layers"]:
                    if not ops:
                        ops_hist["untouched_file_layers"] += 1
                    for o in ops or []:
                        ops_hist[o["op"]] = ops_hist.get(o["op"], 0) + 1
                        if o.get("extra"):
                            ops_hist["write_with_second_location"] = ops_hist.get("write_with_second_location", 0) + 1
                        if -1 in (o.get("pkgs") or []):
                            ops_hist["write_with_cancel_line"] = ops_hist.get("write_with_cancel_line", 0) + 1
                if _nontrivial(c):
                    nontriv_cases += 1
                    seen.add(vlib.sha([c["history"], c["layers"]]))
        corr_bad += [base + i for i in r["corr"]]
        spec_bad += [base + i for i in r["spec"]]
    ctx.log("harness ran %d images, %d packages traced; corr_bad=%d spec_bad=%d" % (len(cases), evals, len(corr_bad), len(spec_bad)))
    ctx.coverage.update({
        "evaluations": evals,
        "distinct_nontrivial": len(seen),
        "rule": "one evaluation = one package whose LayerDetails the real ScanContainer filled in; a case is one image "
                "(history + layers); distinct by SHA-256 of (history, layers); non-trivial when >= 2 layers touch some file "
                "and >= 1 package of it changes presence between consecutive views",
        "samples": [cases[i] for i in sorted({0, len(cases) // 3, len(cases) // 2, len(cases) - 1})],
        "exhaustive": False,
        "input_distribution": {"streams": streams, "chain_layers": {str(k): v for k, v in sorted(nlayers.items())},
                               "operations": ops_hist, "images": len(cases), "nontrivial_images": nontriv_cases},
        "vm_compute_cases": len(cases),
        "explanation": "stream 'exhaustive' enumerates every history of 1..%d entries over one file and two packages "
                       "(per entry: empty layer, untouched, delete, write of each of the 4 subsets); 'random' draws 1..6 "
                       "entries over up to 3 files x 4 packages; 'random-history-mismatch' breaks the history/layer count "
                       "so that validateHistory falls back to unnamed layers" % exh,
    })
    ctx.coverage["trusted_base"] = vlib.std_trusted_base(pa, tb_extra)
    ctx.assumptions += ["all packages of one location come from one extractor",
                        "chain-layer views of whole-file writes/deletes are the overlay (C04)"]
    outside = sum(r.get("outside_D", 0) for r in results)
    strict_bad = sum(r.get("strict_bad", 0) for r in results)
    ctx.coverage["input_distribution"]["packages_outside_D_not_claimed_by_oracle"] = outside
    ctx.coverage["input_distribution"]["images_violating_the_sentence_as_written_all_outside_D"] = strict_bad
    ctx.coverage["stated_limit"] = ("a filesystem.Run error during the backwards walk (scan context cancelled; stream 'cancel') "
                                    "breaks the loop and attributes the package to layer 0 -- outside the property's quantifier, "
                                    "modelled (walk's cancelled flag) and compared on every run, not claimed by the oracle; "
                                    "extractor errors do not take that path (partial results are used); LayerDetails.InBaseImage "
                                    "is always false (trace.go never consults Image.BaseImageIndex); nothing is reported through a "
                                    "symlinked directory (the image FS does not resolve intermediate links)")
    import glob
    fixed = []
    for fpath in sorted(glob.glob(os.path.join(vlib.VERIF, "KNOWN_FINDINGS.d", "*.json"))):
        k = json.load(open(fpath))
        fixed += [e for e in (k if isinstance(k, list) else k.get("findings", []))
                  if e.get("property") == "C05" and e.get("status") == "fixed" and e.get("witness")]
    for kf in fixed:
        impl, cout, flags = _replay_eval(ctx, binp, kf["witness"], "C05_fixed_" + "".join(ch if ch.isalnum() else "_" for ch in kf["id"]))
        if flags is None:
            raise RuntimeError("fixed finding replay failed: " + cout[-1500:])
        if not (flags[1] and flags[2]):
            ctx.violation({"kind": "spec-failure", "regression_of": kf["id"], "fix_commit": kf.get("fix_commit"),
                           "case": kf["witness"], "implementation": impl,
                           "explanation": "the witness of a fixed finding violates the property again"})
        elif not flags[0]:
            ctx.violation({"kind": "correspondence-broken", "regression_of": kf["id"], "first_mismatch": kf["witness"],
                           "correspondence": CORR, "theorems_no_longer_tied_to_code": THEOREMS}, nofail=True)
    ctx.coverage["fixed_findings_regression_replayed"] = [e["id"] for e in fixed]
    for kf in ctx.known_findings():
        impl, cout, flags = _replay_eval(ctx, binp, kf["witness"], "C05_known_" + "".join(ch if ch.isalnum() else "_" for ch in kf["id"]))
        if flags is None:
            raise RuntimeError("known finding replay failed: " + cout[-1500:])
        if flags[0] and not flags[2]:
            ctx.print_known(kf)
        else:
            ctx.violation({"kind": "known-finding-stale", "finding": kf["id"], "stale_theorem": kf.get("refuted_theorem"),
                           "witness": kf["witness"], "implementation": impl, "flags_model_specD_strict": flags,
                           "explanation": "the listed witness no longer behaves as the model predicts (or no longer violates "
                                          "the sentence as written): the refuted-theorem is no longer tied to the code"}, nofail=True)
    vlib.standard_decide(ctx, pa, corr_bad, spec_bad, cases, lambda c: c, THEOREMS, CORR)


def replay(ctx, path):
    binp, out = ctx.harness_build("trace")
    obj = json.load(open(path))
    case = obj.get("case") or obj.get("first_mismatch")
    if case is None:
        print("no case in", path)
        return 2
    impl, cout, flags = _replay_eval(ctx, binp, case, "C05_replay")
    print("implementation:", impl)
    print("[model_ok, spec_ok_on_D, spec_ok_as_written] =", flags)
    print(cout)
    return 0

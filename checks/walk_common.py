"""Shared glue for the Walk-area checks (C01, C08, C09, C10): harness invocation, sharded vm_compute
evaluation of the generated cases, known-finding replay, evidence helpers."""
import json
import os
import re
from concurrent.futures import ThreadPoolExecutor

import vlib

COQ_FILES = ["Lib/SortSearch.v", "Walk/Model.v", "Walk/Spec.v", "Walk/Cases.v", "Walk/Sched.v", "Walk/Witness.v",
             "Walk/Perm.v", "Walk/Faults.v", "Walk/Proofs.v", "Walk/Trace.v", "Walk/SpecProofs.v", "Walk/C01Proofs.v"]
HEADER = ("From Coq Require Import List ZArith NArith Bool.\n"
          "From Scalibr Require Import Walk.Model Walk.Spec Walk.Cases.\nImport ListNotations.\n")
CORR_NAME = "filesystem.Run / scalibr.Scan (Go) vs Walk.Model.run / scan (Coq, vm_compute)"
TRUSTED = [
    "Go harness harness/cmd/walk: in-memory scalibrfs.FS (listing order and fault injection are inputs), table-driven "
    "fake extractors, recording stats.Collector; error values are classified by message prefix into abort kinds; "
    "plugin failure reasons are split at newlines into (kind, path) items",
    "oracles tabulated per case by the harness and taken as functions by the theorems: go-git gitignore "
    "ParsePattern/Matcher.Match on (pattern file, path relative to the .gitignore's directory, isDir), Go regexp "
    "MatchString and gobwas glob Match on directory paths",
    "file names are identifiers (non-empty, no '/', not '.' or '..'), so path.Join / strings.Split / map lookup act on segment lists",
    "modelled, not verified: stripAllPathPrefixes / absolute-path handling of real scan roots (virtual roots only), "
    "StoreAbsolutePath, the status-printing goroutine, standalone extractors and detectors",
]


def build_and_run(ctx, prop, n, extra=(), per=25):
    """Build the walk harness from /repo's tree, run the stream family of `prop`. Returns (cases, vfile) or (None, log)."""
    binp, out = ctx.harness_build("walk")
    if binp is None:
        return None, out, None
    d = os.path.join(vlib.BUILD, "cases")
    os.makedirs(d, exist_ok=True)
    vfile = os.path.join(d, "%s_cases.v" % prop)
    side = os.path.join(d, "%s_cases.jsonl" % prop)
    # regression corpus: the witnesses of fixed findings run first and are judged by the oracle at full strength
    corpus = fixed_witnesses(prop)
    cpath = os.path.join(d, "%s_corpus.json" % prop)
    json.dump(corpus, open(cpath, "w"))
    extra = list(extra) + ["-corpus", cpath]
    rc, out = vlib.sh([binp, "-out", vfile, "-jsonl", side, "-seed", str(ctx.seed), "-prop", prop, "-n", str(n),
                       "-per", str(per)] + list(extra), timeout=1500)
    if rc != 0:
        raise RuntimeError("walk harness failed: " + out[-2000:])
    cases = [json.loads(l) for l in open(side)]
    return cases, vfile, binp


def fixed_witnesses(prop):
    """Witness cases of KNOWN_FINDINGS.d entries of this property whose status is `fixed`."""
    import glob
    out = []
    for f in sorted(glob.glob(os.path.join(vlib.VERIF, "KNOWN_FINDINGS.d", "*.json"))):
        k = json.load(open(f))
        for e in (k if isinstance(k, list) else k.get("findings", [])):
            if e.get("property") == prop and e.get("status") == "fixed" and isinstance(e.get("witness"), dict) and "roots" in e["witness"]:
                w = dict(e["witness"])
                w["stream"] = "regression"
                w["note"] = "fixed finding " + e["id"]
                out.append(w)
    return out


def shard_eval(ctx, prop, vfile, defs, per=25, workers=14):
    """defs: list of (name, coq term with {c} for the chunk's case list) each evaluating to a `list nat`.
    Index lists (names ending in _bad or _idx) are shifted by the chunk offset; others are summed elementwise."""
    txt = open(vfile).read()
    chunks = re.findall(r"(Definition (cases_\d+) : list wcase :=\n.*?\]\.\n)", txt, re.S)
    if not chunks:
        return {name: [] for name, _ in defs}, 0

    def one(k):
        body, cname = chunks[k]
        v = HEADER + body
        for name, term in defs:
            v += "Definition %s := Eval vm_compute in %s.\nPrint %s.\n" % (name, term.format(c=cname), name)
        rc, out = ctx.run_cases("%s_shard_%d" % (prop, k), v)
        res = {}
        for name, _ in defs:
            r = vlib.parse_printed_list(out, name)
            if rc != 0 or r is None:
                raise RuntimeError("cases shard %d failed: %s" % (k, out[-1500:]))
            res[name] = r
        return res

    total = {name: [] for name, _ in defs}
    with ThreadPoolExecutor(max_workers=workers) as ex:
        for k, res in enumerate(ex.map(one, range(len(chunks)))):
            for name, _ in defs:
                if name.endswith("_bad") or name.endswith("_idx"):
                    total[name] += [k * per + i for i in res[name]]
                else:
                    total[name] = [a + b for a, b in zip(total[name] or [0] * len(res[name]), res[name])]
    return total, len(chunks)


def eval_single(ctx, name, coq_case, defs):
    """Evaluate terms over one case `w` (for known-finding witnesses and replays). defs: (name, term using w)."""
    v = HEADER + "Definition w : wcase := %s.\n" % coq_case
    for dn, term in defs:
        v += "Definition %s := Eval vm_compute in %s.\nPrint %s.\n" % (dn, term, dn)
    rc, out = ctx.run_cases(name, v)
    return rc, out


def replay_witness(ctx, binp, witness, tag):
    """Run one witness case through the implementation; returns (coq_case, impl_json) or (None, log)."""
    d = os.path.join(vlib.BUILD, "cases")
    p = os.path.join(d, "%s_witness_%s.json" % (ctx.pid, tag))
    json.dump({"case": witness}, open(p, "w"))
    rc, out = vlib.sh([binp, "-replay", p], timeout=120)
    m = [l for l in out.splitlines() if l.startswith("coq-case: ")]
    i = [l for l in out.splitlines() if l.startswith("implementation: ")]
    if rc != 0 or not m:
        return None, out
    return m[0][len("coq-case: "):], (json.loads(i[0][len("implementation: "):]) if i else None)


def printed_bool(out, name):
    m = re.search(r"\b%s\s*=\s*(true|false)\b" % re.escape(name), out)
    return None if not m else (m.group(1) == "true")


# ------------------------------------------------------------------ evidence helpers
def tree_stats(c):
    dirs_below = 0
    nodes = 0
    wide = False

    def rec(n, depth):
        nonlocal dirs_below, nodes, wide
        nodes += 1
        if n["k"] == "dir":
            if depth > 0:
                dirs_below += 1
            if len(n.get("ch", [])) >= 2:
                wide = True
            for ch in n.get("ch", []):
                rec(ch, depth + 1)
    for r in c["roots"]:
        rec(r, 0)
    return {"nodes": nodes, "dirs_below_root": dirs_below, "wide": wide}


def canonical_input(c):
    d = dict(c)
    d.pop("obs", None)
    d.pop("stream", None)
    d.pop("group", None)
    d.pop("variant", None)
    d.pop("note", None)
    return d


def options_active(c):
    return [k for k in ("skip_list", "regex", "glob", "gitignore", "ignore_subdirs", "paths", "symlinks", "max_size")
            if c.get(k)]


def histogram(values):
    h = {}
    for v in values:
        h[str(v)] = h.get(str(v), 0) + 1
    return dict(sorted(h.items()))


def strip_obs(c):
    d = dict(c)
    o = dict(d.get("obs", {}))
    if len(o.get("events", [])) > 40:
        o["events"] = o["events"][:40] + [["...", "", "%d more" % (len(o["events"]) - 40)]]
    d["obs"] = o
    return d

"""C17 - symlink resolution in image views terminates with the right answer."""
import json
import os
import shutil
from concurrent.futures import ThreadPoolExecutor

import vlib

LEVEL = "proof"
PROPS = "Symlink/Props_C17.v"
COQ_FILES = ["Symlink/PathSeg.v", "Symlink/PathSegProofs.v", "Symlink/Model.v", "Symlink/Proofs.v",
             "Symlink/LoadProofs.v", "Symlink/OracleProofs.v", "Symlink/Props_C17.v"]
THEOREMS = ["resolve_sound", "resolve_target", "resolve_target_distinct", "resolve_missing", "resolve_otherwise",
            "resolve_notexist_sound", "resolve_cycle_sound", "resolve_depth_sound", "resolve_strict_on_D",
            "resolve_strict_refuted", "resolve_agrees_with_walk", "resolve_fuel_exact", "s_expect_means", "oracle_accepts_resolver", "s_table_wf", "stat_sound", "stat_deleted", "open_sound", "target_outside_root_sound",
            "inside_clean", "loaded_links_inside", "outside_link_absent", "view_get_consistent",
            "stored_target_is_lexical_target"]
CORR = "image layer FS Stat/Open/ReadDir (Go, FromV1Image) vs Symlink.Model m_stat/m_open/m_readdir (Coq, vm_compute)"
TOTAL_GRAPHS = 14 ** 5

META = {
    "technique": "Coq proof about the tortoise-and-hare resolver for every lookup function and depth + vm_compute "
                 "correspondence against FromV1Image/ChainLayer.FS on exhaustively enumerated symlink graphs",
    "level_text": "Theorems resolve_sound / resolve_target / resolve_missing / resolve_otherwise (+ honest error classes, "
                  "Stat/Open corollaries) hold for every graph, size and maximum depth; target_outside_root_sound and "
                  "loaded_links_inside cover the load-time half. The sentence as written fails at one boundary "
                  "(resolve_strict_refuted: missing entry exactly at hop max+1 answers not-exist) and holds on the stated "
                  "domain (resolve_strict_on_D). The model is tied to the code on every run: all 14^5 graphs on 5 named "
                  "entries x max depth 0..6 in the thorough tier (a seeded slice in quick), plus chains up to 8 links, "
                  "random 3-layer graphs and non-canonical / escaping target spellings.",
    "level_note": "Trusted: Coq kernel + vm_compute; Go harness (image building with go-containerregistry, error "
                  "classification by errors.Is); the view construction is modelled only for the harness's image shape "
                  "(distinct names of <= 2 segments); which whiteout nodes survive the final-view pruning is an observed "
                  "input bounded by the model (it depends on Go map order); uuid marker freshness is a premise.",
    "design_ref": "DESIGN.md section 5 C17",
}


def _run_part(ctx, binp, tag, args, tmpdir):
    """Run one harness process, then coqc every file it wrote. Returns dict."""
    d = os.path.join(vlib.BUILD, "cases")
    prefix = os.path.join(d, "C17_%s" % tag)
    side = prefix + ".jsonl"
    env = dict(os.environ)
    os.makedirs(tmpdir, exist_ok=True)
    env["TMPDIR"] = tmpdir
    env["GOMAXPROCS"] = "2"
    rc, out = vlib.sh([binp, "-out", prefix, "-jsonl", side] + args, timeout=3000, env=env)
    shutil.rmtree(tmpdir, ignore_errors=True)
    if rc != 0:
        raise RuntimeError("harness part %s failed: %s" % (tag, out[-2000:]))
    summ = None
    for l in out.splitlines():
        if l.startswith("summary: "):
            summ = json.loads(l[len("summary: "):])
    if summ is None:
        raise RuntimeError("harness part %s: no summary: %s" % (tag, out[-500:]))
    res = {"tag": tag, "summary": summ, "side": side, "corr": [], "spec": [], "boundary": 0, "noncanon": 0,
           "in_D": 0, "order_sensitive": 0}
    per = summ["per_file"]
    for k, f in enumerate(summ["files"]):
        rc, cout = vlib.sh(["coqc", "-Q", os.path.join(vlib.COQ, "theories"), "Scalibr", f], cwd=d, timeout=3000)
        cb = vlib.parse_printed_list(cout, "corr_bad")
        sb = vlib.parse_printed_list(cout, "spec_bad")
        bc = vlib.parse_printed_list(cout, "boundary_count")
        if summ.get("stream") == "general":
            bc = [0]
            res["in_D"] += (vlib.parse_printed_list(cout, "in_D") or [0])[0]
            res["order_sensitive"] += (vlib.parse_printed_list(cout, "order_sensitive") or [0])[0]
        if rc != 0 or cb is None or sb is None or bc is None:
            raise RuntimeError("cases file %s failed: %s" % (f, cout[-1500:]))
        res["corr"] += [k * per + i for i in cb]
        res["spec"] += [k * per + i for i in sb]
        res["boundary"] += bc[0]
        nc = vlib.parse_printed_list(cout, "noncanonical_abs")
        if nc:
            res["noncanon"] += nc[0]
        for ext in (".vo", ".vok", ".vos", ".glob"):
            try:
                os.remove(f[:-2] + ext)
            except FileNotFoundError:
                pass
    return res


def _line(path, n):
    with open(path) as f:
        for i, l in enumerate(f):
            if i == n:
                return json.loads(l)
    return None


REPLAY_HDR = ("From Coq Require Import List NArith Bool.\nFrom Scalibr Require Import Symlink.PathSeg Symlink.Model.\n"
              "Import ListNotations.\n")


def _replay_eval(ctx, binp, case_obj, name):
    """Run one case (explicit or exh idx) on the implementation and evaluate model / specs in Coq.
    Returns list of dicts (one per depth for exh)."""
    p = os.path.join(vlib.BUILD, "cases", name + ".json")
    with open(p, "w") as f:
        json.dump({"case": case_obj}, f)
    tmp = os.path.join("/dev/shm" if os.path.isdir("/dev/shm") else "/tmp", "verif_c17_rp_%d" % os.getpid())
    os.makedirs(tmp, exist_ok=True)
    env = dict(os.environ)
    env["TMPDIR"] = tmp
    rc, out = vlib.sh([binp, "-replay", p], env=env)
    shutil.rmtree(tmp, ignore_errors=True)
    if rc != 0:
        raise RuntimeError("replay failed: " + out[-1500:])
    impls = [json.loads(l[len("implementation: "):]) for l in out.splitlines() if l.startswith("implementation: ")]
    gdefs = [l[len("coq-general-defs: "):] for l in out.splitlines() if l.startswith("coq-general-defs: ")]
    gterm = [l[len("coq-general-case: "):] for l in out.splitlines() if l.startswith("coq-general-case: ")]
    if gterm:
        v = ("From Coq Require Import List NArith ZArith Bool.\nFrom Scalibr Require Import Image.PathTree Image.Fill "
             "Image.Overlay Symlink.General.\nImport ListNotations.\n" + gdefs[0] + "\nDefinition c0 : gcase := " + gterm[0] + ".\n"
             "Definition r0 := Eval vm_compute in [gcase_model_ok c0; gcase_spec_ok c0; gcase_spec_ok c0; gcase_in_D c0; gcase_order_sensitive c0].\nPrint r0.\n"
             "Definition m0 := Eval vm_compute in match load (gcfg (g_depth c0)) (g_img c0) with Some st => "
             "map (fun q => (g_view q, g_name q, g_stat (nth (g_view q) (st_chains st) empty_trie) (g_name q) (g_depth c0), "
             "SM.s_expect (spec_stable (view_spec (gcfg (g_depth c0)) (g_img c0) (g_view q))) (qsegs (g_name q)) (g_depth c0))) (g_obs c0) "
             "| None => [] end.\nPrint m0.\n")
        rc, cout = ctx.run_cases(name, v)
        t = vlib.parse_printed_term(cout, "r0")
        flags = [x.strip() == "true" for x in (t or "").strip("[]").split(";")] if t else None
        return [{"impl": impls[0] if impls else None, "flags": flags}], cout, rc
    # the harness prints the case term on two lines
    lines = out.splitlines()
    terms = []
    for i, l in enumerate(lines):
        if l.startswith("coq-case: "):
            terms.append(l[len("coq-case: "):] + " " + (lines[i + 1] if i + 1 < len(lines) else ""))
    v = REPLAY_HDR
    for i, t in enumerate(terms):
        v += "Definition c%d : scase := %s.\n" % (i, t)
        v += ("Definition r%d := Eval vm_compute in [case_model_ok c%d; case_spec_ok c%d; case_spec_strict_ok c%d].\n"
              "Print r%d.\n" % (i, i, i, i, i))
        v += ("Definition m%d := Eval vm_compute in map (fun q => (q_view q, q_name q, "
              "m_stat (c_img c%d) (c_kept c%d) (q_view q) (q_name q) (c_depth c%d), "
              "s_expect (s_table (c_img c%d) (q_view q)) (q_name q) (c_depth c%d))) (c_obs c%d).\nPrint m%d.\n"
              % (i, i, i, i, i, i, i, i))
    rc, cout = ctx.run_cases(name, v)
    res = []
    for i in range(len(terms)):
        t = vlib.parse_printed_term(cout, "r%d" % i)
        flags = [x.strip() == "true" for x in (t or "").strip("[]").split(";")] if t else None
        res.append({"impl": impls[i] if i < len(impls) else None, "flags": flags})
    return res, cout, rc


def run(ctx):
    bad = ctx.gate(COQ_FILES)
    if bad:
        ctx.violation({"kind": "gate", "hits": bad}, nofail=True)
    pa = ctx.prove(PROPS, clean=(COQ_FILES if ctx.tier == "thorough" else False))
    ctx.log("proof ok=%s obligations=%d closed=%d" % (pa["ok"], pa["obligations"], pa["print_assumptions_closed"]))
    vlib.proof_coverage(ctx, pa)
    # the general-image stream evaluates Symlink/General.v (built on C04's Image/Fill.v and Image/Overlay.v)
    gbad = ctx.gate(["Symlink/General.v", "Symlink/Bridge.v"])
    if gbad:
        ctx.violation({"kind": "gate", "hits": gbad}, nofail=True)
    # Symlink/Bridge.v: Fill.resolve / lookup_resolved / stat (C04's copy of the loop) = Symlink/Model.v's resolver on the
    # same trie; theorems resolve_on_loaded_view_sound, errors_on_loaded_view_sound, target_on_loaded_view
    for ext in (".vo", ".vok", ".vos", ".glob"):
        try:
            os.remove(os.path.join(vlib.COQ, "theories", "Symlink", "Bridge" + ext))
        except FileNotFoundError:
            pass
    rcg, outg = ctx.coq_make(["theories/Symlink/General.vo", "theories/Symlink/Bridge.vo"])
    ctx.coverage["bridge_theorems"] = {"file": "Symlink/Bridge.v",
                                       "theorems": ["resolve_on_loaded_view_sound", "errors_on_loaded_view_sound", "target_on_loaded_view"],
                                       "closed_under_global_context": outg.count("Closed under the global context"),
                                       "compiled": rcg == 0}
    general_ok = (rcg == 0)
    if not general_ok:
        ctx.notes.append("Symlink/General.v (or Image/Fill.v, Image/Overlay.v it imports) does not compile: " + outg[-600:])
    if ctx.tier == "thorough":
        chk = ctx.coqchk(["Scalibr.Symlink.PathSeg", "Scalibr.Symlink.PathSegProofs", "Scalibr.Symlink.Model",
                          "Scalibr.Symlink.Proofs", "Scalibr.Symlink.LoadProofs", "Scalibr.Symlink.OracleProofs", "Scalibr.Symlink.Props_C17"] +
                         (["Scalibr.Symlink.General", "Scalibr.Symlink.Bridge"] if general_ok else []))
        ctx.coverage["coqchk"] = chk
        if chk["rc"] != 0:
            ctx.proof_ok = False
            pa["ok"] = False
            pa["log_tail"] = chk["output_tail"]
    binp, out = ctx.harness_build("symlink")
    tb_extra = [
        "Go harness harness/cmd/symlink (tar/layer construction with go-containerregistry tarball.LayerFromOpener + "
        "mutate.AppendLayers; error classes by errors.Is; base names as node identity)",
        "restricted view model (Symlink/Model.v raw_get/view_table): only claimed for wf_image (distinct names of <= 2 "
        "segments, no name a prefix of another); the general overlay is C04's subject",
        "observed input: the set of whiteout nodes surviving removeUnnecessaryFileNodes in the final view (Go map order "
        "dependent); bounded on every case by kept_lower/kept_upper",
        "premise: the uuid marker of TargetOutsideRoot does not occur among the path segments (fresh)",
        "modelled, not verified: pathtree (one node per path, exact segment lookup), archive/tar, go-containerregistry",
    ]
    if binp is None:
        ctx.violation({"kind": "harness-build-failed", "log": out[-3000:], "correspondence": CORR,
                       "theorems_no_longer_tied_to_code": THEOREMS}, nofail=True)
        ctx.coverage["trusted_base"] = vlib.std_trusted_base(pa, tb_extra)
        return
    d = os.path.join(vlib.BUILD, "cases")
    os.makedirs(d, exist_ok=True)
    for f in os.listdir(d):
        if f.startswith("C17_"):
            try:
                os.remove(os.path.join(d, f))
            except OSError:
                pass
    shm = "/dev/shm" if os.path.isdir("/dev/shm") else "/tmp"
    tmpbase = os.path.join(shm, "verif_c17_%d" % os.getpid())
    parts = []
    if ctx.tier == "thorough":
        # part k = the graph indices congruent to k modulo nparts: if the machine is so loaded that not all parts can
        # be started within the budget, what has run is still spread evenly over the whole space
        nparts = 42
        parts.append(("e", ["-stream", "explicit", "-seed", str(ctx.seed), "-rand", "3000", "-paths", "3000", "-per", "150"]))
        parts.append(("g", ["-stream", "general", "-seed", str(ctx.seed), "-general", "6000", "-per", "150"]))
        for k in range(nparts):
            parts.append(("x%02d" % k, ["-stream", "exh", "-lo", "0", "-hi", str(TOTAL_GRAPHS), "-parts", str(nparts),
                                        "-part", str(k), "-per", "3300", "-compact"]))
        exhaustive = True
    else:
        nparts = 7
        for k in range(nparts):
            parts.append(("x%02d" % k, ["-stream", "exh", "-sample", "1400", "-seed", str(ctx.seed), "-parts", str(nparts),
                                        "-part", str(k), "-per", "200"]))
        parts.append(("e", ["-stream", "explicit", "-seed", str(ctx.seed), "-rand", "250", "-paths", "250", "-per", "140"]))
        parts.append(("g", ["-stream", "general", "-seed", str(ctx.seed), "-general", "400", "-per", "60"]))
        exhaustive = False
    if not general_ok:
        parts = [pt for pt in parts if pt[0] != "g"]
        ctx.violation({"kind": "proof-broken", "props_file": "Symlink/General.v", "log_tail": outg[-2500:],
                       "correspondence": "general-image stream (Symlink/General.v over Image/Fill.v + Image/Overlay.v)",
                       "explanation": "the model of the general-image stream does not compile, so that stream was not run"},
                      nofail=True)
    results = []
    import time
    start_budget = float(os.environ.get("VERIF_C17_START_BUDGET_S", "600"))
    t_start = time.time()

    def guarded(tag, args):
        if tag not in ("e", "g") and time.time() - t_start > start_budget:
            return None     # not started: the 20-minute budget of the tier would be exceeded
        return _run_part(ctx, binp, tag, args, os.path.join(tmpbase, tag))

    skipped = 0
    with ThreadPoolExecutor(max_workers=14) as ex:
        futs = [ex.submit(guarded, tag, args) for tag, args in parts]
        for f in futs:
            r = f.result()
            if r is None:
                skipped += 1
            else:
                results.append(r)
    shutil.rmtree(tmpbase, ignore_errors=True)
    if skipped:
        exhaustive = False
        ctx.notes.append("%d of %d exhaustive-stream parts were not started within %ds (machine load); the parts that ran "
                         "are residue classes of the graph index, i.e. spread evenly over the space" % (skipped, len(parts) - 2, start_budget))
    graphs = sum(r["summary"].get("graphs", 0) for r in results)
    explicit = sum(r["summary"].get("cases", 0) for r in results)
    general = sum(r["summary"].get("cases", 0) for r in results if r["summary"].get("stream") == "general")
    general_in_D = sum(r["in_D"] for r in results)
    general_order_sensitive = sum(r["order_sensitive"] for r in results)
    unstable = sum(r["summary"].get("unstable_answers", 0) for r in results)
    evals = sum(r["summary"]["evaluations"] for r in results)
    distinct = sum(r["summary"]["distinct_nontrivial"] for r in results)
    boundary = sum(r["boundary"] for r in results)
    noncanon = sum(r["noncanon"] for r in results)
    ctx.log("harness: %d exhaustive-stream graphs x 7 depths, %d explicit cases, %d Stat/Open/ReadDir calls" % (graphs, explicit, evals))
    # collect mismatches as concrete cases
    cases, corr_bad, spec_bad = [], [], []
    for r in results:
        for kind, lst in (("corr", r["corr"]), ("spec", r["spec"])):
            for i in lst[:5]:
                c = _line(r["side"], i)
                cases.append(c)
                (corr_bad if kind == "corr" else spec_bad).append(len(cases) - 1)
    ncorr = sum(len(r["corr"]) for r in results)
    nspec = sum(len(r["spec"]) for r in results)
    ctx.log("corr_bad=%d spec_bad=%d boundary_obs=%d noncanonical_abs_cases=%d" % (ncorr, nspec, boundary, noncanon))

    # known findings: replay the witnesses
    for kf in ctx.known_findings():
        res, cout, rc = _replay_eval(ctx, binp, kf["witness"], "C17_known_" + "".join(ch if ch.isalnum() else "_" for ch in kf["id"]))
        ok = rc == 0 and res and all(x["flags"] is not None for x in res)
        if not ok:
            raise RuntimeError("known finding replay failed: " + cout[-1500:])
        model_ok = all(x["flags"][0] for x in res)
        strict_ok = all(x["flags"][2] for x in res)
        if model_ok and not strict_ok:
            ctx.print_known(kf)
        elif not model_ok:
            ctx.violation({"kind": "known-finding-stale", "finding": kf["id"], "stale_theorem": kf.get("refuted_theorem"),
                           "witness": kf["witness"], "implementation": [x["impl"] for x in res],
                           "explanation": "the listed witness no longer behaves as the model predicts: the refuted-theorem "
                                          "is no longer tied to the code"}, nofail=True)
        else:
            ctx.violation({"kind": "known-finding-stale", "finding": kf["id"], "stale_theorem": kf.get("refuted_theorem"),
                           "witness": kf["witness"],
                           "explanation": "witness satisfies the strict property although the model agrees with the code: "
                                          "the finding entry is wrong"}, nofail=True)

    # fixed findings suppress nothing: their witnesses are regression cases (model, spec on D and spec as written must hold)
    import glob
    fixed = []
    for fpath in sorted(glob.glob(os.path.join(vlib.VERIF, "KNOWN_FINDINGS.d", "*.json"))):
        k = json.load(open(fpath))
        fixed += [e for e in (k if isinstance(k, list) else k.get("findings", []))
                  if e.get("property") == "C17" and e.get("status") == "fixed" and e.get("witness")]
    for kf in fixed:
        res, cout, rc = _replay_eval(ctx, binp, kf["witness"], "C17_fixed_" + "".join(ch if ch.isalnum() else "_" for ch in kf["id"]))
        if rc != 0 or not res or any(x["flags"] is None for x in res):
            raise RuntimeError("fixed finding replay failed: " + cout[-1500:])
        if not all(x["flags"][1] and x["flags"][2] for x in res):
            ctx.violation({"kind": "spec-failure", "regression_of": kf["id"], "fix_commit": kf.get("fix_commit"),
                           "case": kf["witness"], "implementation": [x["impl"] for x in res],
                           "explanation": "the witness of a fixed finding violates the property again"})
        elif not all(x["flags"][0] for x in res):
            ctx.violation({"kind": "correspondence-broken", "regression_of": kf["id"], "first_mismatch": kf["witness"],
                           "correspondence": CORR, "theorems_no_longer_tied_to_code": THEOREMS}, nofail=True)
    ctx.coverage["fixed_findings_regression_replayed"] = [e["id"] for e in fixed]

    hist = {}
    for r in results:
        for i, v in enumerate(r["summary"].get("kind_histogram", [])):
            hist[i] = hist.get(i, 0) + v
    streams = {"exh": graphs}
    for r in results:
        for k, v in (r["summary"].get("streams") or {}).items():
            streams[k] = streams.get(k, 0) + v
    samples = []
    for r in (results[0], results[len(results) // 2], results[-1]):
        s = _line(r["side"], 0)
        if s is not None:
            if "obs" in s and isinstance(s["obs"], list) and s["obs"] and isinstance(s["obs"][0], dict):
                s = dict(s)
                s["obs"] = s["obs"][:6]
            samples.append(s)
        s = _line(r["side"], 3)
        if s is not None and s.get("stream") == "exh":
            samples.append(s)
    kinds = ["file", "dir", "missing", "deleted", "rel->e0", "rel->e1", "rel->e2", "rel->e3", "rel->e4",
             "abs->e0", "abs->e1", "abs->e2", "abs->e3", "abs->e4"]
    ctx.coverage.update({
        "evaluations": evals,
        "distinct_nontrivial": distinct,
        "rule": "one evaluation = one Stat, Open or ReadDir call on a chain-layer FS of a real image; a case is "
                "(image, max depth, view, queried entry); distinct by SHA-256 of that tuple (computed in the harness); "
                "non-trivial when the queried entry is a symlink",
        "samples": samples,
        "exhaustive": exhaustive,
        "input_distribution": {
            "streams": streams,
            "exhaustive_stream_graphs": graphs, "exhaustive_stream_total": TOTAL_GRAPHS, "depths_per_graph": 7,
            "entry_kind_histogram": {kinds[i]: v for i, v in sorted(hist.items())},
            "observations_on_boundary_excluded_from_oracle": boundary,
            "explicit_cases_with_noncanonical_abs_target": noncanon,
            "general_images": general, "general_images_in_oracle_domain_D17": general_in_D,
            "general_images_with_map_order_dependent_final_view": general_order_sensitive,
            "general_answers_differing_between_query_orders": unstable,
        },
        "vm_compute_cases": graphs * 7 + explicit,
        "history_modes": "every stream varies the config history: exhaustive graphs by index mod 4, explicit cases round-robin over "
                         "match / none / one non-empty entry missing / one surplus (the count-mismatch fallback of "
                         "initializeChainLayers); general images also get empty-layer entries between the layers. Views and hop "
                         "budget must not depend on it.",
        "query_orders": "general stream: every chain layer of one loaded image is asked in three orders (views ascending with "
                        "one FS object per view; views descending and names reversed on the same FS objects; name-major on "
                        "fresh FS objects); an answer that differs from the first pass is kept as an extra observation and "
                        "therefore fails the correspondence",
        "explanation": ("every one of the 14^5 = 537824 graphs x depths 0..6 was run" if exhaustive else
                        "%d of the 537824 graphs x depths 0..6 were run (quick: seeded sample; thorough runs all unless "
                        "the machine is overloaded)" % graphs)
                       + "; chains/rand3/paths streams use 3-layer images so that whiteout nodes are visible in a middle view",
    })
    ctx.coverage["trusted_base"] = vlib.std_trusted_base(pa, tb_extra)
    ctx.assumptions += ["pathtree holds one *fileNode per path, so pointer equality in resolveSymlink is path equality",
                        "uuid.New() is fresh: the marker does not occur as a path segment of the link or its target",
                        "Config.MaxSymlinkDepth >= 0 (validateConfig)"]
    vlib.standard_decide(ctx, pa, corr_bad, spec_bad, cases, lambda c: c, THEOREMS, CORR)


def replay(ctx, path):
    binp, out = ctx.harness_build("symlink")
    obj = json.load(open(path))
    case = obj.get("case") or obj.get("first_mismatch") or obj.get("witness")
    if case is None:
        print("no case in", path)
        return 2
    res, cout, rc = _replay_eval(ctx, binp, case, "C17_replay")
    for x in res:
        print("implementation:", json.dumps(x["impl"]))
        print("[model_ok, spec_ok_on_D, spec_ok_strict] =", x["flags"])
    print(cout)
    return 0

"""C09 - filesystem faults are contained, surfaced, and fatal only on request."""
import json
import os
import sys

import vlib

sys.path.insert(0, os.path.dirname(os.path.abspath(__file__)))
import walk_common as wc  # noqa: E402

LEVEL = "proof"
PROPS = "Walk/Props_C09.v"
COQ_FILES = wc.COQ_FILES + ["Walk/Invariant.v", "Walk/Faults.v", "Walk/FaultProofs.v", "Walk/ConfineProofs.v",
                            "Walk/ContainProofs.v", "Walk/LimitProofs.v", "Walk/SubdirProofs.v", "Walk/PathsProofs.v", "Walk/MultiFaultProofs.v", "Walk/SizeStatProofs.v", "Walk/Props_C09.v"]
THEOREMS = ["lazy_stat_fault_fatal_iff_requested", "nonfatal_never_fails", "faults_contained", "faults_surface", "required_file_outcome",
            "fatal_iff_traversal_fault", "scan_status_derivation", "faults_contained_paths", "multiroot_faults_contained",
            "multiroot_faults_surface"]

META = {
    "technique": "Coq proof over all trees carrying any number of fault annotations (walk = execution of a pure schedule; "
                 "comparison of the schedules of a tree and of its fault-erased copy) + vm_compute correspondence against "
                 "filesystem.Run / scalibr.Scan over a harness file system that fails chosen operations",
    "level_text": "Theorems (all trees, any combination of faults at: root stat, open-dir, k-th ReadDir, open file, stat of the open "
                  "file; ErrorOnFSErrors off, no inode limit/cancel): the scan completes without error or panic "
                  "(nonfatal_never_fails), its Extract calls are exactly those of the fault-erased tree whose path is not lost "
                  "(faults_contained; in requested-paths mode a path that cannot be stat'ed contributes nothing and does not affect later paths: faults_contained_paths; over several roots a fault in one root never changes another root's calls and the statuses are those of all roots together: multiroot_faults_contained, multiroot_faults_surface), every open/stat/extract failure is an item of the owning plugin's failed / partially-"
                  "succeeded status and every non-succeeded status has such a cause (faults_surface, required_file_outcome); "
                  "with ErrorOnFSErrors the scan succeeds iff no traversal fault is reached, an unreadable .gitignore of an entered directory (permission or other error) being one (fatal_iff_traversal_fault); Scan's "
                  "status is Failed iff Run returned an error (scan_status_derivation). No refutation is left: the lazy-Stat abort, the "
                  "gitignore-stack panic and the unreadable-.gitignore abort were repaired in /repo (commits fcea44df, 3fdcaf3f, d544b0e3); "
                  "their witnesses are in the regression corpus. faults_contained carries gi_readable (an unreadable .gitignore contributes "
                  "no patterns, so the scan is not compared with the fault-free one there); tree_quiet only excludes Stat faults on files "
                  "when a FileRequired consults api.Stat(). Size-limit clause: theorem lazy_stat_fault_fatal_iff_requested (extractor loop of "
                  "handleFile: a failing lazy Stat on a required file hands the file to no extractor and aborts iff fatal errors were requested) "
                  "and the oracle clause c09_size_domain, claimed on every case whose only faults are failing Stat calls on files with a size limit set.",
    "level_note": "Trusted: Coq kernel + vm_compute; harness file system (fault injection per operation site, error values fs.ErrPermission / "
                  "fs.ErrNotExist (vanished file) / I-O error mapped to one model fault - the implementation must not tell them apart; a missing "
                  ".gitignore is documented as no patterns and is not injected); a failing read inside an extractor is the extractor's own error return (the "
                  "Extract table). standalone.Run is not exercised.",
    "design_ref": "DESIGN.md section 5 C09",
}

DEFS = [
    ("corr_bad", "bad_indices case_model_ok {c} 0"),
    ("spec_bad", "bad_indices case_spec_ok_C09 {c} 0"),
    ("dom_idx", "bad_indices (fun w => negb (c09_domain w)) {c} 0"),
    ("base_idx", "bad_indices (fun w => negb (c09_base_domain w)) {c} 0"),
    ("fail_idx", "bad_indices (fun w => negb (c09_base_domain w) || c09_spec_on_obs w) {c} 0"),
    ("paths_bad", "bad_indices case_spec_ok_C09_paths {c} 0"),
    ("pathsdom_idx", "bad_indices (fun w => negb (c09_paths_domain w)) {c} 0"),
    ("multi_bad", "bad_indices case_spec_ok_C09_multi {c} 0"),
    ("multidom_idx", "bad_indices (fun w => negb (c09_multi_domain w)) {c} 0"),
    ("size_bad", "bad_indices case_spec_ok_C09_size {c} 0"),
    ("sizedom_idx", "bad_indices (fun w => negb (c09_size_domain w)) {c} 0"),
]


def nontrivial(c):
    ts = wc.tree_stats(c)
    return ts["dirs_below_root"] >= 1 and len(c.get("req", [])) >= 1 and c["obs"].get("faults_hit", 0) >= 1


def describe(c):
    return wc.strip_obs(c)


def run(ctx):
    bad = ctx.gate(COQ_FILES)
    if bad:
        ctx.violation({"kind": "gate", "hits": bad}, nofail=True)
    pa = ctx.prove(PROPS, clean=(COQ_FILES[1:] if ctx.tier == "thorough" else False))
    ctx.log("proof ok=%s obligations=%d closed=%d" % (pa["ok"], pa["obligations"], pa["print_assumptions_closed"]))
    vlib.proof_coverage(ctx, pa)
    ctx.coverage["trusted_base"] = vlib.std_trusted_base(pa, wc.TRUSTED)
    if ctx.tier == "thorough":
        n, extra = 40, ["-exhaustive"]
    else:
        n, extra = 45, []
    cases, vfile, binp = wc.build_and_run(ctx, "C09", n, extra)
    if cases is None:
        ctx.violation({"kind": "harness-build-failed", "log": vfile[-3000:], "correspondence": wc.CORR_NAME,
                       "theorems_no_longer_tied_to_code": THEOREMS}, nofail=True)
        return
    ctx.log("harness ran %d cases" % len(cases))
    res, nshards = wc.shard_eval(ctx, "C09", vfile, DEFS)
    corr_bad, spec_bad = res["corr_bad"], sorted(set(res["spec_bad"] + res["paths_bad"] + res["multi_bad"] + res["size_bad"]))
    in_pathsdom = set(res["pathsdom_idx"])
    in_dom, in_base, fails = set(res["dom_idx"]), set(res["base_idx"]), set(res["fail_idx"])
    ctx.log("size-limit clause: in_domain=%d bad=%d" % (len(res["sizedom_idx"]), len(res["size_bad"])))
    ctx.log("corr_bad=%d spec_bad=%d in_D=%d statement_domain=%d failing_outside_D=%d shards=%d" %
            (len(corr_bad), len(spec_bad), len(in_dom), len(in_base), len(fails - in_dom), nshards))

    stale = []
    for e in ctx.known_findings():
        coq_case, impl = wc.replay_witness(ctx, binp, e["witness"], e["id"])
        if coq_case is None:
            raise RuntimeError("witness replay failed: " + str(impl)[-1500:])
        rc, out = wc.eval_single(ctx, "C09_known_" + e["id"].replace("-", "_"), coq_case, [
            ("k_model", "case_model_ok w"), ("k_base", "c09_base_domain w"), ("k_spec", "c09_spec_on_obs w"),
            ("k_dom", "c09_domain w")])
        km, kb, ks, kd = (wc.printed_bool(out, x) for x in ("k_model", "k_base", "k_spec", "k_dom"))
        if None in (km, kb, ks, kd):
            raise RuntimeError("known-finding evaluation failed: " + out[-1500:])
        if kb and not ks and km and not kd and impl and impl.get("class") == e.get("expect_class"):
            ctx.print_known(e)
        else:
            stale.append({"id": e["id"], "refuted_theorem": e.get("refuted_theorem"), "model_reproduces": km,
                          "witness_in_statement_domain": kb, "spec_holds_on_implementation": ks, "inside_D": kd,
                          "observed_class": impl and impl.get("class")})
    for s in stale:
        ctx.violation({"kind": "known-finding-stale", "entry": s, "correspondence": wc.CORR_NAME,
                       "explanation": "the listed witness no longer fails on the implementation the way the model and the "
                                      "_refuted theorem say; theorem named in entry is stale"}, nofail=True)

    seen = set()
    for c in cases:
        if nontrivial(c):
            seen.add(vlib.sha(wc.canonical_input(c)))
    nfaults = lambda c: len([x for x in (c.get("note") or "").split(",") if x])
    ctx.coverage.update({
        "evaluations": len(cases),
        "distinct_nontrivial": len(seen),
        "rule": "a case = small tree + fault set (0, 1 or 2 operation sites: root stat, open-dir, k-th ReadDir(1) for every k, open "
                "file, stat of the open file, lazy stat) x ErrorOnFSErrors x size limit x error kind, run through filesystem.Run "
                "and scalibr.Scan; every single fault of every base tree is enumerated; distinct by SHA-256 of the canonical "
                "input; non-trivial when the tree has >= 1 directory below the root, >= 1 required file and the run actually "
                "triggered >= 1 injected fault (counted by the harness file system)",
        "samples": [describe(cases[i]) for i in sorted({1, len(cases) // 3, len(cases) // 2, len(cases) - 1}) if i < len(cases)],
        "exhaustive": False,
        "input_distribution": {
            "faults_per_case": wc.histogram(nfaults(c) for c in cases),
            "fault_ops": wc.histogram(x.split(":")[0] for c in cases for x in (c.get("note") or "").split(",") if x),
            "faults_triggered": wc.histogram(c["obs"].get("faults_hit", 0) for c in cases),
            "fatal": wc.histogram(bool(c.get("fatal")) for c in cases),
            "size_limit": wc.histogram(c.get("max_size", 0) for c in cases),
            "gitignore": wc.histogram(bool(c.get("gitignore")) for c in cases),
            "outcome": wc.histogram(c["obs"]["class"] for c in cases),
            "base_trees": len({c.get("variant") for c in cases}),
            "statement_domain": len(in_base), "inside_D": len(in_dom), "rejected_by_D": len(in_base - in_dom),
            "requested_paths_fault_oracle_domain": len(in_pathsdom), "multi_root_fault_oracle_domain": len(set(res["multidom_idx"])), "streams": wc.histogram(c["stream"] for c in cases),
        },
        "vm_compute_cases": len(cases),
        "explanation": "fault enumeration is the input space of the correspondence (every single fault over every generated base tree"
                       + (", every pair" if ctx.tier == "thorough" else ", sampled pairs") +
                       "); the proofs cover unbounded trees and any number of faults",
    })
    ctx.assumptions += ["an injected fault is deterministic per (path, operation)",
                        "go-git / regexp / glob are functions (tabulated per case)"]
    vlib.standard_decide(ctx, pa, corr_bad, spec_bad, cases, describe, THEOREMS, wc.CORR_NAME)


def replay(ctx, path):
    binp, out = ctx.harness_build("walk")
    obj = json.load(open(path))
    case = obj.get("case") or obj.get("first_mismatch") or obj
    coq_case, impl = wc.replay_witness(ctx, binp, case, "replay")
    print("implementation:", json.dumps(impl))
    if coq_case:
        rc, out = wc.eval_single(ctx, "C09_replay", coq_case, [
            ("model", "model_obs_d (cfg_of_case w) (w_dets w) (w_roots w)"),
            ("model_eq_impl", "case_model_ok w"),
            ("in_D", "c09_domain w"), ("spec_on_obs", "c09_spec_on_obs w"), ("spec_ok", "case_spec_ok_C09 w"),
            ("paths_domain", "c09_paths_domain w"), ("paths_expected_calls", "expected_paths_faulty (cfg_of_case w) (match w_roots w with [t] => t | _ => dummy_node end)"),
            ("paths_spec_ok", "case_spec_ok_C09_paths w"), ("multi_root_domain", "c09_multi_domain w"), ("multi_root_spec_ok", "case_spec_ok_C09_multi w")])
        print(out)
    return 0

"""C10, image half: `layer_file_limit` (Contain/Props_C10_image.v) and its correspondence.

Called by checks/C10.py:

    import importlib.util, os
    spec = importlib.util.spec_from_file_location("part_C10_image", os.path.join(vlib.VERIF, "checks", "part_C10_image.py"))
    part = importlib.util.module_from_spec(spec); spec.loader.exec_module(part)
    corr_bad_cases, spec_bad_cases, stats = part.run_part(ctx)

run_part(ctx) proves Contain/Props_C10_image.v itself (ctx.prove), builds harness/cmd/contain from /repo's
current tree, loads generated images whose regular files have sizes around Config.MaxFileBytes with the real
image.FromV1Image, and evaluates model and spec by vm_compute.  It returns
  corr_bad_cases : list of case dicts where Contain.Limit.handle_file_copy disagrees with the implementation
                   (on-disk size under ExtractDir, visibility and size in the layer's own view)
  spec_bad_cases : list of case dicts violating the property itself (a file on disk longer than the limit, or a
                   view exposing a file whose size is >= the limit)
  stats          : dict (proof result `pa`, counts, distribution, samples, theorem names, trusted base lines)
It never calls ctx.violation itself; a broken proof is reported through stats["pa"]["ok"] == False.
"""
import json
import os
import shutil
import tempfile

import vlib

PROPS = "Contain/Props_C10_image.v"
COQ_FILES = ["Contain/PathBytes.v", "Contain/PathBytesProofs.v", "Contain/Model.v", "Contain/Proofs.v",
             "Contain/Limit.v", "Contain/LimitProofs.v", "Contain/Props_C10_image.v"]
THEOREMS = ["layer_file_limit", "layer_model_uses_limit", "layer_disk_files_bounded", "layer_exposes_only_below_limit"]
CORR_NAME = "image.FromV1Image handleFile (LimitReader + numBytes >= max) vs Contain.Limit.handle_file_copy (Coq, vm_compute)"


def run_part(ctx):
    stats = {"theorems": THEOREMS, "correspondence": CORR_NAME, "coq_files": COQ_FILES}
    gate = ctx.gate(COQ_FILES)
    stats["gate_hits"] = gate
    pa = ctx.prove(PROPS, clean=False)
    stats["pa"] = pa
    ctx.log("C10/image proof ok=%s obligations=%d closed=%d" % (pa["ok"], pa["obligations"], pa["print_assumptions_closed"]))
    binp, out = ctx.harness_build("contain")
    if binp is None:
        stats["harness_build_failed"] = out[-3000:]
        return [], [], stats
    d = os.path.join(vlib.BUILD, "cases")
    os.makedirs(d, exist_ok=True)
    vfile = os.path.join(d, "C10img_cases.v")
    side = os.path.join(d, "C10img_cases.jsonl")
    n = 2500 if ctx.tier == "thorough" else 300
    sandbox = tempfile.mkdtemp(prefix="c10img-")
    try:
        rc, out = vlib.sh([binp, "-sandbox", sandbox, "-limitmode", "-limitout", vfile, "-limitjsonl", side,
                           "-limitn", str(n), "-seed", str(ctx.seed)], timeout=1500)
    finally:
        shutil.rmtree(sandbox, ignore_errors=True)
    if rc != 0:
        raise RuntimeError("contain -limitmode failed: " + out[-3000:])
    cases = [json.loads(l) for l in open(side)]
    rc, out = ctx.run_cases("C10img_eval", open(vfile).read())
    cb = vlib.parse_printed_list(out, "corr_bad")
    sb = vlib.parse_printed_list(out, "spec_bad")
    if rc != 0 or cb is None or sb is None:
        raise RuntimeError("C10 image cases failed to evaluate: " + out[-2000:])
    dist, seen = {}, set()
    for c in cases:
        rel = ("size<max-1" if c["size"] < c["max"] - 1 else "size=max-1" if c["size"] == c["max"] - 1 else
               "size=max" if c["size"] == c["max"] else "size=max+1" if c["size"] == c["max"] + 1 else "size>max+1")
        dist[rel] = dist.get(rel, 0) + 1
        if abs(c["size"] - c["max"]) <= 1 or c["size"] >= c["max"]:
            seen.add(vlib.sha([c["image"], c["layer"], c["view"], c["name"], c["size"], c["max"]]))
    stats.update({
        "evaluations": len(cases),
        "distinct_nontrivial": len(seen),
        "rule_image": "one observation = (image, layer, view, file) of a generated 1-3 layer image loaded by the real FromV1Image "
                      "with MaxFileBytes in {1,2,3,8,64,1000,4096}; non-trivial when the entry size is within 1 of the limit or above it",
        "size_vs_limit": dist,
        "streams": {s: sum(1 for c in cases if c["stream"] == s) for s in sorted({c["stream"] for c in cases})},
        "samples": cases[:2] + cases[len(cases) // 2:len(cases) // 2 + 1],
        "trusted_base": ["Go harness harness/cmd/contain -limitmode (image generation, ExtractDir stat, chain-layer FS Stat/Open)",
                         "io.Copy / io.LimitReader semantics: copies min(size, max) bytes (modelled as Z.min)"],
    })
    ctx.log("C10/image cases=%d corr_bad=%d spec_bad=%d" % (len(cases), len(cb), len(sb)))
    return [cases[i] for i in cb], [cases[i] for i in sb], stats

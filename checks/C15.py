"""C15 - SBOMs the library writes can be read back by the library."""
import importlib.util
import json
import os
import vlib

LEVEL = "proof"
PROPS = "Convert/Props_C15.v"
COQ_FILES = ["Convert/Bytes.v", "Convert/Generated_PurlTypes.v", "Convert/Generated_ProtoMeta.v", "Convert/Purl.v", "Convert/Pkg.v", "Convert/Proto.v",
             "Convert/Sbom.v", "Convert/SbomRoundtrip.v", "Convert/Cases15.v", "Convert/BytesProofs.v", "Convert/Proofs.v",
             "Convert/SbomRoundtripProofs.v", "Convert/Props_C15.v"]
THEOREMS = ["spdx_import_exact", "cdx_import_exact", "sbom_roundtrip_spdx_on_D", "sbom_roundtrip_cdx_on_D",
            "emitted_inventories_in_D", "spdx_tagvalue_export_unreadable"]

META = {
    "technique": "Coq proofs about executable models of ToSPDX23/ToCDX (export) and the sbom/spdx, sbom/cdx extractors (import) "
                 "with the third-party codecs as premises + vm_compute correspondence: generated inventories are exported, "
                 "written with spdx.Write23 / cdx.Write in all five formats and scanned back with the real extractors",
    "level_text": "Proved (Convert/Props_C15.v), for all inventories: the purls the SBOM extractors return from an exported "
                  "document are exactly the exported purls that the library's own FromString accepts, normalised "
                  "(spdx_import_exact, cdx_import_exact); hence on the domain D (every purl type accepted by validType and "
                  "re-parsable by packageurl-go) the multiset read back equals the normalised exported multiset "
                  "(sbom_roundtrip_spdx_on_D, sbom_roundtrip_cdx_on_D); D contains every inventory over emitted purl types whose "
                  "purls packageurl-go can parse back (emitted_inventories_in_D, via C14's regenerated tables, snap included since "
                  "the validType fix); no SPDX tag-value export is readable at all "
                  "(spdx_tagvalue_export_unreadable). Third-party code enters only as premises: packageurl-go law on law_domain, "
                  "non-empty printed purl, codec view preservation (validated per case and format).",
    "level_note": "Trusted: Coq kernel + vm_compute; harness harness/cmd/sbom; the JSON/YAML/XML codecs (tools-golang, "
                  "cyclonedx-go) as premises validated per case by decoding each written file; the tag-value codec is partial "
                  "and modelled only by its domain (supplier type, unescaped text). Model's lower-casing is ASCII-only: the "
                  "packageurl-go law is assumed on law_domain and checked on the wider caseless-UTF-8 whitelist.",
    "design_ref": "DESIGN.md section 5 C15",
}

CASES_HEADER = ("From Coq Require Import List ZArith NArith Bool.\n"
                "From Scalibr Require Import Convert.Bytes Convert.Purl Convert.Pkg Convert.Proto Convert.Sbom "
                "Convert.SbomRoundtrip Convert.Cases15.\nImport ListNotations.\n")


def _c14():
    spec = importlib.util.spec_from_file_location("check_C14_shared", os.path.join(vlib.VERIF, "checks", "C14.py"))
    m = importlib.util.module_from_spec(spec)
    spec.loader.exec_module(m)
    return m


def tail15(name):
    return ("Definition corr_bad := Eval vm_compute in bad_indices case_model_ok %s.\nPrint corr_bad.\n"
            "Definition spec_bad := Eval vm_compute in bad_indices case_spec_ok %s.\nPrint spec_bad.\n"
            "Definition counts := Eval vm_compute in [count_in_D %s; count_exportable %s; count_law_checked %s; count_tv_readable %s].\n"
            "Print counts.\n" % ((name,) * 6))


def run(ctx):
    c14 = _c14()
    bad = ctx.gate(COQ_FILES)
    if bad:
        ctx.violation({"kind": "gate", "hits": bad}, nofail=True)
    types, tout = c14.translate(ctx)
    if types is None:
        ctx.violation({"kind": "translator-failed", "log": tout[-3000:], "theorems_no_longer_tied_to_code": THEOREMS}, nofail=True)
        return
    ctx.log("translator: %d emitted types%s" % (len(types["emitted"]), " [generated file changed]" if types["generated_file_changed"] else ""))
    pa = ctx.prove(PROPS, clean=(COQ_FILES if ctx.tier == "thorough" else False))
    ctx.log("proof ok=%s obligations=%d closed=%d" % (pa["ok"], pa["obligations"], pa["print_assumptions_closed"]))
    vlib.proof_coverage(ctx, pa)
    if ctx.tier == "thorough" and pa["ok"]:
        chk = ctx.coqchk(["Scalibr.Convert.Props_C15"])
        ctx.coverage["coqchk"] = chk
        ctx.log("coqchk rc=%d (%.0fs)" % (chk["rc"], chk["wall_s"]))
        if chk["rc"] != 0:
            ctx.violation({"kind": "coqchk-failed", "output": chk["output_tail"], "theorems": THEOREMS}, nofail=True)
    rc, mout = ctx.coq_make(["theories/Convert/Cases15.vo"])
    if rc != 0:
        raise RuntimeError("Cases15.vo does not build: " + mout[-2000:])
    ctx.coverage["trusted_base"] = vlib.std_trusted_base(pa, [
        "translator harness/cmd/purltypes (emitted purl types)",
        "Go harness harness/cmd/sbom (drives the real ToSPDX23/ToCDX, spdx.Write23, cdx.Write, filesystem.Run with sbom/spdx and sbom/cdx)",
        "premise L: packageurl-go FromString(ToString p) = norm p on law_domain (checked on every purl of this run that lies in the caseless whitelist)",
        "premise C: tools-golang JSON/YAML and cyclonedx-go JSON/XML decode what they encode as far as reference types/locators, "
        "component purl/cpe are concerned (checked for every written file of this run)",
        "tools-golang tag-value writer/reader: partial codec, modelled by its domain only (tv_supplier_all_ok, tv_text_safe)"])
    ctx.assumptions += ["packageurl-go law (see C14)", "codec view preservation per format, validated per case",
                        "a printed purl is never empty"]
    binp, out = ctx.harness_build("sbom")
    if binp is None:
        ctx.violation({"kind": "harness-build-failed", "log": out[-3000:], "theorems_no_longer_tied_to_code": THEOREMS}, nofail=True)
        return
    # known findings
    d = os.path.join(vlib.BUILD, "cases")
    os.makedirs(d, exist_ok=True)
    for e in c14.fixed_findings(ctx):
        p = os.path.join(d, "C15_witness_%s.json" % e["id"])
        json.dump(e["witness"], open(p, "w"))
        rc, out = vlib.sh([binp, "-witness", p], timeout=300)
        try:
            res = json.loads(out.strip().splitlines()[-1])
        except Exception:
            res = {"still_fails": None, "error": out[-800:]}
        if res.get("still_fails") is False:
            ctx.coverage.setdefault("regression_witnesses_passed", []).append(e["id"])
        else:
            ctx.violation({"kind": "spec-failure", "clause": "regression: fixed finding %s is back" % e["id"], "fix_commit": e.get("fix_commit"),
                           "case": e["witness"].get("case"), "witness": e["witness"], "result": res,
                           "explanation": "the witness of a defect recorded as fixed fails again on the implementation"})
    for e in ctx.known_findings():
        p = os.path.join(d, "C15_witness_%s.json" % e["id"])
        json.dump(e["witness"], open(p, "w"))
        rc, out = vlib.sh([binp, "-witness", p], timeout=300)
        try:
            res = json.loads(out.strip().splitlines()[-1])
        except Exception:
            res = {"still_fails": None, "error": out[-800:]}
        if res.get("still_fails"):
            ctx.print_known(e)
        else:
            ctx.violation({"kind": "known-finding-stale", "finding": e["id"], "stale_theorem": e.get("refuted_theorem"),
                           "witness": e["witness"], "result": res,
                           "explanation": "the recorded witness no longer fails on the implementation while the Coq development "
                                          "still contains its _refuted theorem"}, nofail=True)

    vfile, side, summ = (os.path.join(d, "C15_cases" + x) for x in (".v", ".jsonl", "_summary.json"))
    n = "4000" if ctx.tier == "thorough" else "400"
    rc, out = vlib.sh([binp, "-out", vfile, "-jsonl", side, "-summary", summ, "-seed", str(ctx.seed), "-n", n,
                       "-types", os.path.join(vlib.BUILD, "purltypes.json")], timeout=1500)
    if rc != 0:
        raise RuntimeError("harness failed: " + out[-2000:])
    cases = [json.loads(l) for l in open(side)]
    summary = json.load(open(summ))
    ctx.log("harness: %d inventories, %d write+scan runs, failures %s, codec mismatches %d" % (
        len(cases), summary["scans"], summary["write_or_scan_failures"], summary["codec_mismatches"]))
    c14.retranslate_guard(ctx, "theories/Convert/Cases15.vo")
    outs = c14.shard_and_run(ctx, vfile, "C15", 10, tail15)
    corr_bad, spec_bad, counts = [], [], [0, 0, 0, 0]
    for k, o in enumerate(outs):
        cb, sb, cn = (vlib.parse_printed_list(o, x) for x in ("corr_bad", "spec_bad", "counts"))
        if None in (cb, sb, cn):
            raise RuntimeError("cases shard %d: unparsable output: %s" % (k, o[-1500:]))
        corr_bad += [k * 10 + i for i in cb]
        spec_bad += [k * 10 + i for i in sb]
        counts = [a + b for a, b in zip(counts, cn)]
    ctx.log("corr_bad=%d spec_bad=%d (in D %d, with exportable purl %d, law-checked %d, tag-value readable %d)" % (
        len(corr_bad), len(spec_bad), counts[0], counts[1], counts[2], counts[3]))
    ctx.coverage.update({
        "evaluations": summary["scans"],
        "distinct_nontrivial": summary["distinct_nontrivial"],
        "rule": "one case = one generated inventory exported and scanned back in 5 formats (evaluations counts write+scan runs); "
                "distinct by SHA-256 of the package list; non-trivial when the inventory has >= 1 SPDX-exportable package "
                "(purl with non-empty name and version)",
        "samples": [cases[i] for i in sorted(set([0, len(cases) // 3, len(cases) // 2, len(cases) - 1])) if i < len(cases)],
        "exhaustive": False,
        "input_distribution": {k: summary[k] for k in ("streams", "inventory_sizes", "purl_types", "write_or_scan_failures",
                                                         "codec_mismatches")},
        "inventories_in_D": counts[0],
        "inventories_with_exportable_purl": counts[1],
        "inventories_law_checked": counts[2],
        "inventories_tagvalue_readable": counts[3],
        "hypotheses_validated": {"codec view preservation (json, yaml, cdx-json, cdx-xml)": summary["scans"] - summary["codec_mismatches"],
                                 "packageurl-go law": counts[2]},
        "every_emitted_type_covered": sorted(summary["emitted_types"]),
        "explanation": "every emitted purl type gets its own inventory in every run; then random streams (well-formed, duplicates, "
                       "hostile text, malformed = outside D, correspondence only)",
    })

    def describe(c):
        return c

    vlib.standard_decide(ctx, pa, corr_bad, spec_bad, cases, describe, THEOREMS,
                         "ToSPDX23/ToCDX + Write23/Write + sbom extractors (Go) vs Convert.SbomRoundtrip (Coq, vm_compute)")


def replay(ctx, path):
    binp, out = ctx.harness_build("sbom")
    if binp is None:
        print(out)
        return 2
    rc, out = vlib.sh([binp, "-replay", path, "-types", os.path.join(vlib.BUILD, "purltypes.json")], timeout=600)
    print(out)
    m = [l for l in out.splitlines() if l.startswith("coq-case: ")]
    if m:
        ctx.coq_make(["theories/Convert/Cases15.vo"])
        v = (CASES_HEADER + "Definition c : scase := %s.\n"
             "Definition in_D := Eval vm_compute in (case_in_D c, case_law_checked c).\nPrint in_D.\n"
             "Definition model := Eval vm_compute in (model_spdx c, model_spdx_tv c, model_cdx c).\nPrint model.\n"
             "Definition model_agrees := Eval vm_compute in case_model_ok c.\nPrint model_agrees.\n"
             "Definition spec_holds := Eval vm_compute in case_spec_ok c.\nPrint spec_holds.\n" % m[0][len("coq-case: "):])
        rc, out = ctx.run_cases("C15_replay", v)
        print(out)
    return 0

"""C07 - ecosystem version comparison is total, consistent and a valid ordering."""
import glob
import json
import os
import re
import shutil
import threading
from concurrent.futures import ThreadPoolExecutor

import vlib

LEVEL = "proof"
PROPS = "Semantic/Props_C07.v"
AREA = "Semantic"

# model family -> (Coq files, ecosystems served, theorems tied to the code by the correspondence)
def _thms(p, extra=()):
    return [p + "_" + x for x in ("total", "antisym", "struct_antisym", "refl", "struct_refl", "trans_on_valid", "eq_equiv")] + list(extra)


FAMILIES = {
    "semver": {"files": ["Semver.v", "SemverProofs.v"],
               "theorems": _thms("semver", ["semver_trans_all_strings", "semver_eq_equiv_all_strings"])},
    "nuget": {"files": ["Nuget.v", "NugetProofs.v"],
              "theorems": _thms("nuget", ["nuget_trans_all_strings", "nuget_eq_equiv_all_strings"])},
    "cran": {"files": ["Cran.v", "CranProofs.v"],
             "theorems": ["cran_struct_total", "cran_ok_on_valid"] + _thms("cran")},
    "rubygems": {"files": ["Rubygems.v", "RubygemsProofs.v"],
                 "theorems": _thms("rubygems", ["rubygems_trans_all_strings", "rubygems_eq_equiv_all_strings"])},
    "debian": {"files": ["Debian.v", "DebianProofs.v", "DebianLoopProofs.v"], "theorems": _thms("debian", ["debian_parse_valid", "debian_loop_equiv"])},
    "redhat": {"files": ["Redhat.v", "RedhatProofs.v", "RedhatLoopProofs.v"],
               "theorems": _thms("redhat", ["redhat_trans_all_strings", "redhat_eq_equiv_all_strings", "redhat_loop_equiv"])},
    "pypi": {"files": ["Pypi.v", "PypiProofs.v", "PypiParse.v", "PypiParseProofs.v"],
             "theorems": ["pypi_struct_total", "pypi_parse_valid", "pypi_total", "pypi_antisym", "pypi_refl", "pypi_struct_antisym", "pypi_struct_refl",
                          "pypi_struct_refl_refuted", "pypi_trans_on_valid", "pypi_eq_equiv", "pypi_trans_all_strings", "pypi_eq_equiv_all_strings"]},
    "packagist": {"files": ["Packagist.v", "PackagistProofs.v"],
                  "theorems": ["packagist_total", "packagist_antisym", "packagist_refl", "packagist_hash_eq_not_transitive_refuted",
                               "packagist_trans_on_D", "packagist_eq_equiv_on_D", "packagist_total_all_strings",
                               "packagist_antisym_all_strings", "packagist_refl_all_strings", "packagist_trans_on_D_strings",
                               "packagist_eq_equiv_on_D_strings"]},
    "maven": {"files": ["DecProofs.v", "Maven.v", "MavenProofs.v", "MavenParseProofs.v"],
              "theorems": ["maven_total", "maven_struct_total", "maven_refl", "maven_struct_refl", "maven_eq_symmetric",
                           "maven_struct_antisym", "maven_trans_refuted", "maven_trans_on_D", "maven_eq_equiv_on_D",
                           "maven_parse_wf", "maven_antisym", "maven_trans_on_D_strings", "maven_eq_equiv_on_D_strings"]},
    "alpine": {"files": ["Alpine.v", "AlpineProofs.v", "AlpineParse.v", "AlpineParseProofs.v"],
               "theorems": ["alpine_total", "alpine_antisym", "alpine_refl", "alpine_eq_not_transitive_refuted",
                            "alpine_trans_on_D", "alpine_eq_equiv_on_D", "alpine_total_all_strings", "alpine_antisym_all_strings",
                            "alpine_refl_all_strings", "alpine_trans_on_D_strings", "alpine_eq_equiv_on_D_strings"]},
}
ALL_FAMILIES = ["semver", "nuget", "cran", "rubygems", "debian", "redhat", "pypi", "packagist", "alpine", "maven"]
ALL_ECOS = {"semver": ["npm", "crates.io", "Go", "Hex", "Pub", "ConanCenter"], "nuget": ["NuGet"], "cran": ["CRAN"],
            "rubygems": ["RubyGems"], "debian": ["Debian", "Ubuntu"], "redhat": ["Red Hat"], "pypi": ["PyPI"],
            "packagist": ["Packagist"], "alpine": ["Alpine"], "maven": ["Maven"]}
LIB_FILES = ["Cmp.v", "LexPad.v", "Bytes.v", "Str.v", "Generated_Tables.v", "Cases.v", "Registry.v"]


def implemented():
    return [k for k in ALL_FAMILIES if k in FAMILIES]


def not_modelled():
    return [e for k in ALL_FAMILIES if k not in FAMILIES for e in ALL_ECOS[k]]


def coq_files():
    fs = list(LIB_FILES)
    for k in implemented():
        fs += FAMILIES[k]["files"]
    return [AREA + "/" + f for f in fs] + [PROPS]


META = {
    "technique": "Coq proofs (padded-lexicographic / shortlex / key-induced total preorders, Go panics as an explicit Panic outcome) "
                 "over hand-written Gallina models of each ecosystem's parser and comparator + vm_compute correspondence "
                 "against semantic.Parse / Version.CompareStr + order-law oracle on the implementation's own results",
    "level_text": "Modelled ecosystems: %s. Props_C07.v proves for the model of Parse+CompareStr of each: E_total (never Panic: all byte "
                  "strings for the semver family, NuGet, CRAN (since fix 38e33aec: ErrInvalidVersion instead of the nil dereference), RubyGems, "
                  "Debian/Ubuntu, Red Hat, Maven; all parser-buildable structures for PyPI/Packagist/Alpine), E_antisym and E_refl (all strings where the parser is modelled, all structures / "
                  "all well-formed structures otherwise), E_trans_on_valid and E_eq_equiv on a boolean validity predicate (for semver "
                  "family, NuGet, RubyGems, Red Hat every string is valid: total preorder on ALL strings). Refuted with _on_D companions: "
                  "alpine_eq_not_transitive_refuted / alpine_trans_on_D, packagist_hash_eq_not_transitive_refuted / packagist_trans_on_D "
                  "(numbers of any size since fix cefe0305), "
                  "maven_trans_refuted (two cycles) / maven_trans_on_D (relational domain). E_agrees_canonical are labelled vm_compute "
                  "tests on published ordering chains. The models are tied to the code on every run: parse model = structure dumped "
                  "by the hook, compare model = observed result on all pairs of a 40-string pool per ecosystem (x shards) and further "
                  "random pairs; the laws are also checked directly on the observed results (every pair both ways, every triple of "
                  "each pool inside the domain of the proved theorem). All front ends are modelled on bytes, including the regex-driven ones (PyPI: PEP 440 expression as a "
                  "backtracking matcher + legacy fallback; Alpine: the five regex steps; Packagist: canonicalisation + split). NOT yet modelled ecosystems: %s."
                  % (", ".join(e for k in implemented() for e in ALL_ECOS[k]), ", ".join(not_modelled()) or "none"),
    "level_note": "Trusted: Coq kernel + vm_compute; Go harness harness/cmd/semantic (string generation, observation of "
                  "value/error/recovered panic, printing of Coq terms); hook semantic/verif_export.go (JSON dump of parsed "
                  "structures). strings.ToLower is modelled for ASCII and, through the generated toolchain table, for U+0080..U+052F (Latin-1, Latin Extended, "
                  "IPA, Greek, Cyrillic; every code point of that range is swept on each run for NuGet, Maven, PyPI); cased letters at or above "
                  "U+0530 are not modelled (such inputs are kept out of the correspondence and counted per ecosystem in input_distribution), math/big; regexp is modelled by hand-written scanners/matchers (checked by the parse correspondence on every string). "
                  "The Debian and Red Hat comparators are modelled as tokenise-then-compare AND as the literal interleaved Go loops, "
                  "proved equal (debian_loop_equiv, redhat_loop_equiv). Maven: maven_parse_wf proves that the modelled tokeniser only builds well-formed token lists, so antisymmetry "
                  "and the laws on D hold for all byte strings. Keyword / weight / spelling tables of Maven, Alpine, Packagist, Debian and PyPI are "
                  "regenerated on every run by PROBING the implementation (harness/cmd/semtables -> Semantic/Generated_Tables.v: what the code does on "
                  "the probe set) and USED by the models.",
    "design_ref": "DESIGN.md section 5 C07",
}


def _pairs(xs, n):
    return [tuple(xs[i:i + n]) for i in range(0, len(xs) - n + 1, n)]


def load_side(side):
    shards = {}
    summary = None
    for line in open(side):
        d = json.loads(line)
        t = d["t"]
        if t == "summary":
            summary = d
            continue
        key = (d["eco"], d["shard"])
        sh = shards.setdefault(key, {"strs": [], "matrix": {}, "extra": [], "rules": [], "meta": None})
        if t == "str":
            sh["strs"].append(d)
        elif t == "pair":
            if d["src"] == "matrix":
                sh["matrix"][(d["i"], d["j"])] = d
            else:
                sh["extra"].append(d)
        elif t == "rule":
            sh["rules"].append(d)
        elif t == "shard":
            sh["meta"] = d
    return shards, summary


def case_of(sh, idxs):
    return {"eco": sh["meta"]["eco"], "hex": [sh["strs"][i]["hex"] for i in idxs],
            "strings": [sh["strs"][i]["s"] for i in idxs]}


NAMES = ["corr_parse_bad", "corr_matrix_bad", "corr_pairs_bad", "spec_parse_total_bad", "spec_refl_bad",
         "spec_antisym_total_bad", "spec_pairs_bad", "spec_trans_bad", "spec_rules_bad", "in_domain_count"]


_REBUILD_LOCK = threading.Lock()


def rebuild_tables(ctx):
    """Another process (bin/seedtest's exit trap restores every committed Generated_*.v) may have replaced the generated
    tables under us: regenerate them and rebuild what the cases files load."""
    with _REBUILD_LOCK:
        tr = translate(ctx)
        rc, out = ctx.coq_make(["theories/Semantic/Registry.vo"])
        ctx.notes.append("Generated_Tables.v was replaced by another process during this run: regenerated and rebuilt (rc=%d)" % rc)
        return tr["ok"] and rc == 0


def run_coq_file(d, name, ctx=None):
    for attempt in range(3):
        rc, out = vlib.sh(["coqc", "-Q", os.path.join(vlib.COQ, "theories"), "Scalibr", name + ".v"], cwd=d, timeout=1500)
        res = {}
        for n in NAMES:
            res[n] = vlib.parse_printed_list(out, n)
        if rc == 0 and not any(v is None for v in res.values()):
            return res
        if ctx is not None and ("inconsistent assumptions" in out or "Generated_Tables" in out or "gen_" in out) and attempt < 2:
            rebuild_tables(ctx)
            continue
        break
    raise RuntimeError("cases file %s failed: %s" % (name, out[-2000:]))


def observed_cell(sh, i, j):
    c = sh["matrix"].get((i, j))
    return c["ij"] if c else None


# ------------------------------------------------------------------ known findings
def witness_fails(entry, matrix):
    """Does the implementation still misbehave on the witness? matrix[i][j] in Lt/Eq/Gt/Err/Panic."""
    kind = entry["witness"]["expect"]
    n = len(matrix)
    le = lambda o: o in ("Lt", "Eq")
    if kind == "panic":
        return any(c == "Panic" for row in matrix for c in row)
    if kind == "not-transitive":
        for i in range(n):
            for j in range(n):
                for k in range(n):
                    if le(matrix[i][j]) and le(matrix[j][k]) and not le(matrix[i][k]):
                        return True
                    if matrix[i][j] == "Eq" and matrix[i][k] != matrix[j][k]:
                        return True
        return False
    if kind == "canonical-order":
        # the published ordering says strings[0] < strings[1]; the finding is that the implementation disagrees
        return matrix[0][1] != "Lt" or matrix[1][0] != "Gt"
    raise RuntimeError("unknown witness expectation " + kind)


def replay_known(ctx, binp, d, props_src):
    out_entries = []
    for e in ctx.known_findings():
        if e.get("family") and e["family"] not in FAMILIES:
            continue
        p = os.path.join(d, "known_%s.json" % e["id"])
        json.dump({"case": {"eco": e["witness"]["eco"], "hex": [s.encode("utf8").hex() for s in e["witness"]["strings"]]}}, open(p, "w"))
        rc, out = vlib.sh([binp, "-replay", p], timeout=120)
        m = re.search(r"^matrix-json: (.*)$", out, re.M)
        if rc != 0 or not m:
            raise RuntimeError("known-finding replay failed: " + out[-1500:])
        matrix = json.loads(m.group(1))
        still = witness_fails(e, matrix)
        thm_present = re.search(r"^\s*(?:Theorem|Example)\s+%s\b" % re.escape(e["refuted_theorem"]), props_src, re.M) is not None
        out_entries.append({"id": e["id"], "still_fails": still, "matrix": matrix})
        if still and thm_present:
            ctx.print_known(e)
        elif thm_present and not still:
            # the model still predicts the failure (the _refuted theorem compiled) but the code no longer shows it
            ctx.violation({"kind": "known-finding-stale", "finding": e["id"], "stale_theorem": e["refuted_theorem"],
                           "witness": e["witness"], "observed_matrix": matrix,
                           "explanation": "the listed witness no longer fails on the implementation while the model (theorem %s) "
                                          "still predicts the failure: model and code have drifted apart" % e["refuted_theorem"]},
                          nofail=True)
        else:
            ctx.violation({"kind": "known-finding-without-theorem", "finding": e["id"], "missing_theorem": e["refuted_theorem"]}, nofail=True)
    return out_entries


def fixed_findings(ctx):
    """Entries with status "fixed": their witnesses form the regression corpus (runs first, judged at full strength)."""
    out = []
    for f in sorted(glob.glob(os.path.join(vlib.VERIF, "KNOWN_FINDINGS.d", "C07*.json"))):
        k = json.load(open(f))
        out += [e for e in (k if isinstance(k, list) else k.get("findings", [])) if e.get("property") == "C07" and e.get("status") == "fixed"]
    return out


def run_regressions(ctx, binp, d):
    """Replay every fixed finding's witness on implementation AND model: the old misbehaviour must be gone
    (no domain restriction, no KNOWN-FINDING line) and model = implementation on the witness."""
    res = []
    for e in fixed_findings(ctx):
        if e.get("family") and e["family"] not in FAMILIES:
            continue
        p = os.path.join(d, "regression_%s.json" % e["id"])
        case = {"eco": e["witness"]["eco"], "hex": [s.encode("utf8").hex() for s in e["witness"]["strings"]], "strings": e["witness"]["strings"]}
        json.dump({"case": case}, open(p, "w"))
        rc, out = vlib.sh([binp, "-replay", p, "-outdir", d], timeout=120)
        m = re.search(r"^matrix-json: (.*)$", out, re.M)
        if rc != 0 or not m:
            raise RuntimeError("regression replay failed: " + out[-1500:])
        matrix = json.loads(m.group(1))
        back = witness_fails(e, matrix)
        rc2, out2 = vlib.sh(["coqc", "-Q", os.path.join(vlib.COQ, "theories"), "Scalibr", "C07_replay.v"], cwd=d, timeout=600)
        lists = {n: vlib.parse_printed_list(out2, n) for n in NAMES if n != "in_domain_count"}
        res.append({"id": e["id"], "fix_commit": e.get("fix_commit"), "defect_back": back, "matrix": matrix})
        if back:
            ctx.violation({"kind": "spec-failure", "law": "regression of fixed finding %s (%s): %s" % (e["id"], e.get("fix_commit"), e["what"]),
                           "case": case, "observed": matrix,
                           "explanation": "the witness of a defect recorded as fixed misbehaves again on the implementation"})
        elif rc2 != 0 or any(v is None for v in lists.values()):
            raise RuntimeError("regression cases file failed: " + out2[-1500:])
        elif any(lists[n] for n in lists if n.startswith("spec_")):
            ctx.violation({"kind": "spec-failure", "law": "order laws on the witness of fixed finding " + e["id"], "case": case, "observed": matrix,
                           "lists": {n: v for n, v in lists.items() if v}})
        elif any(lists[n] for n in lists if n.startswith("corr_")):
            ctx.violation({"kind": "correspondence-broken", "correspondence": "regression corpus: witness of fixed finding " + e["id"],
                           "case": case, "observed_matrix": matrix, "lists": {n: v for n, v in lists.items() if v},
                           "theorems_no_longer_tied_to_code": FAMILIES[e["family"]]["theorems"]}, nofail=True)
    return res


def translate(ctx):
    """Regenerate Semantic/Generated_Tables.v from the Go AST of the tree under test (keyword / weight tables the models use)."""
    binp, out = ctx.harness_build("semtables")
    if binp is None:
        return {"ok": False, "log": out[-2000:]}
    target = os.path.join(vlib.COQ, "theories", "Semantic", "Generated_Tables.v")
    js = os.path.join(vlib.BUILD, "semtables.json")
    rc, out = vlib.sh([binp, "-repo", vlib.REPO, "-out", target, "-json", js], timeout=120)
    res = {"ok": rc == 0, "log": out[-800:], "rewritten_this_run": "generated-file: changed" in out}
    if rc == 0:
        # is the compiled Generated_Tables.vo really built from this text? (file times cannot be trusted: other
        # processes restore the committed copy with old time stamps) -- if not, force the rebuild
        m = re.search(r"Definition gen_tables_id : N := (\d+)%N", open(target).read())
        probe = ("From Coq Require Import NArith.\nFrom Scalibr Require Import Semantic.Generated_Tables.\n"
                 "Goal gen_tables_id = %s%%N. Proof. reflexivity. Qed.\n" % (m.group(1) if m else "0"))
        pd = os.path.join(vlib.BUILD, "cases", "C07-probe-%d" % os.getpid())
        os.makedirs(pd, exist_ok=True)
        open(os.path.join(pd, "probe.v"), "w").write(probe)
        prc, pout = vlib.sh(["coqc", "-Q", os.path.join(vlib.COQ, "theories"), "Scalibr", "probe.v"], cwd=pd, timeout=120)
        shutil.rmtree(pd, ignore_errors=True)
        res["compiled_tables_were_stale"] = prc != 0
        if prc != 0:
            os.utime(target, None)
        res["tables"] = json.load(open(js))
        res["sha256"] = vlib.sha(open(target).read())
        rc2, diff = vlib.sh(["git", "diff", "--stat", "--", "coq/theories/Semantic/Generated_Tables.v"], cwd=vlib.VERIF)
        res["differs_from_committed_copy"] = bool(diff.strip())
        if diff.strip():
            rc3, full = vlib.sh(["git", "diff", "--", "coq/theories/Semantic/Generated_Tables.v"], cwd=vlib.VERIF)
            res["diff_against_committed_copy"] = full[-3000:]
    return res


# ------------------------------------------------------------------ main
def run(ctx):
    tr = translate(ctx)
    ctx.coverage["translated_tables"] = {k: v for k, v in tr.items() if k != "log"}
    ctx.log("translate: ok=%s rewritten=%s differs_from_committed=%s" % (tr["ok"], tr.get("rewritten_this_run"), tr.get("differs_from_committed_copy")))
    if not tr["ok"]:
        ctx.violation({"kind": "translator-failed", "log": tr["log"],
                       "explanation": "harness/cmd/semtables could not find the table patterns in semantic/*.go: the models' tables are "
                                      "no longer derived from the code"}, nofail=True)
    files = coq_files()
    bad = ctx.gate(files)
    if bad:
        ctx.violation({"kind": "gate", "hits": bad}, nofail=True)
    pa = ctx.prove(PROPS, clean=([f for f in files] if ctx.tier == "thorough" else False))
    if not pa["ok"] and ("gen_" in pa["log_tail"] or "Generated_Tables" in pa["log_tail"] or "inconsistent assumptions" in pa["log_tail"]):
        # the generated tables were replaced under us (see rebuild_tables): regenerate and prove once more
        rebuild_tables(ctx)
        ctx.proof_ok = True
        pa = ctx.prove(PROPS)
    ctx.log("proof ok=%s obligations=%d closed=%d" % (pa["ok"], pa["obligations"], pa["print_assumptions_closed"]))
    vlib.proof_coverage(ctx, pa)
    # the cases files also need Cases.vo / Registry.vo (not a dependency of the Props file)
    rc, out = ctx.coq_make(["theories/Semantic/Registry.vo"])
    for _ in range(3):
        if rc == 0 or not ("gen_" in out or "Generated_Tables" in out or "inconsistent assumptions" in out):
            break
        translate(ctx)          # the generated tables were replaced under us: regenerate, rebuild
        ctx.notes.append("Generated_Tables.v was replaced by another process during this run: regenerated and rebuilt")
        rc, out = ctx.coq_make(["theories/Semantic/Registry.vo"])
    if rc != 0:
        pa["ok"] = False
        pa["log_tail"] = out[-3000:]
        ctx.proof_ok = False
    if ctx.tier == "thorough" and pa["ok"]:
        chk = ctx.coqchk(["Scalibr.Semantic.Props_C07"])
        ctx.coverage["coqchk"] = chk
        ctx.log("coqchk rc=%d (%.0fs)" % (chk["rc"], chk["wall_s"]))
        if chk["rc"] != 0 or "Axioms: <none>" not in chk["output_tail"]:
            pa["ok"] = False
            pa["log_tail"] = chk["output_tail"]
            ctx.proof_ok = False
    if pa["ok"] and pa["axioms"]:
        ctx.violation({"kind": "axioms", "axioms": pa["axioms"]}, nofail=True)
    all_thms = [t for k in implemented() for t in FAMILIES[k]["theorems"]]
    tb_extra = [
        "translator harness/cmd/semtables: Generated_Tables.v = what the implementation does on a probe set (documented vocabulary + "
        "every word of every string literal of the ecosystem's source file), obtained through Parse/CompareStr/VerifParse; the systematic "
        "canonical-rule layer and the correspondence are the judges of these tables",
        "Go harness harness/cmd/semantic (generation, observation of value / error / recovered panic, Coq term printing)",
        "hook /repo/semantic/verif_export.go (VerifParse/VerifDump: JSON dump of the parsed structures)",
        "modelled, not verified: Unicode case mapping of strings.ToLower at or above U+0530 (below: generated toolchain table, swept on every run); math/big; regexp (front ends are hand-written byte scanners / a backtracking matcher, tied by the parse correspondence)",
    ]
    ctx.coverage["trusted_base"] = vlib.std_trusted_base(pa, tb_extra)
    ctx.coverage["ecosystems_modelled"] = [e for k in implemented() for e in ALL_ECOS[k]]
    ctx.coverage["ecosystems_not_yet_modelled"] = not_modelled()
    binp, out = ctx.harness_build("semantic")
    if binp is None:
        ctx.violation({"kind": "harness-build-failed", "log": out[-3000:],
                       "correspondence": "semantic.Parse/CompareStr vs Semantic models",
                       "theorems_no_longer_tied_to_code": all_thms}, nofail=True)
        return
    # private scratch directory: several C07 runs (seed tests, tiers) may be in flight at the same time
    d = os.path.join(vlib.BUILD, "cases", "C07-%d" % os.getpid())
    shutil.rmtree(d, ignore_errors=True)
    os.makedirs(d, exist_ok=True)
    try:
        _run_cases(ctx, pa, binp, d, all_thms)
    finally:
        shutil.rmtree(d, ignore_errors=True)


def _run_cases(ctx, pa, binp, d, all_thms):
    side = os.path.join(d, "cases.jsonl")
    if ctx.tier == "thorough":
        args = ["-pool", "48", "-extra", "400", "-rules", "160", "-shards", "8"]
    else:
        args = ["-pool", "48", "-extra", "80", "-rules", "48", "-shards", "1"]
    rc, out = vlib.sh([binp, "-outdir", d, "-jsonl", side, "-seed", str(ctx.seed), "-testdata",
                       os.path.join(vlib.REPO, "semantic", "testdata"), "-kinds", ",".join(implemented())] + args, timeout=900)
    if rc != 0:
        raise RuntimeError("harness failed: " + out[-2000:])
    shards, summary = load_side(side)
    ctx.log("harness: %s" % out.strip().splitlines()[-1])

    # known findings first (replayed individually on the implementation)
    props_src = open(os.path.join(vlib.COQ, "theories", PROPS)).read()
    regress = run_regressions(ctx, binp, d) if pa["ok"] else []
    ctx.coverage["regression_corpus"] = regress
    ctx.log("regression corpus: %d fixed findings replayed, %d misbehaving" % (len(regress), sum(1 for r in regress if r["defect_back"])))
    known = replay_known(ctx, binp, d, props_src) if pa["ok"] else []

    tr2 = translate(ctx)
    if tr2.get("rewritten_this_run") or tr2.get("compiled_tables_were_stale"):
        rebuild_tables(ctx)
    keys = sorted(shards.keys())
    with ThreadPoolExecutor(max_workers=14) as ex:
        results = list(ex.map(lambda k: run_coq_file(d, shards[k]["meta"]["file"], ctx), keys))
    ctx.log("coqc evaluated %d cases files" % len(keys))

    spec_fail, corr_fail = [], []
    in_dom = 0
    for key, res in zip(keys, results):
        sh = shards[key]
        fam = sh["meta"]["kind"]
        in_dom += res["in_domain_count"][0]
        for i in res["spec_parse_total_bad"]:
            spec_fail.append({"law": "totality (parse panicked)", "case": case_of(sh, [i])})
        for i in res["spec_refl_bad"]:
            spec_fail.append({"law": "reflexivity/totality on the diagonal", "case": case_of(sh, [i]), "observed": observed_cell(sh, i, i)})
        for (i, j) in _pairs(res["spec_antisym_total_bad"], 2):
            spec_fail.append({"law": "antisymmetry/totality", "case": case_of(sh, [i, j]),
                              "observed": {"a_vs_b": observed_cell(sh, i, j), "b_vs_a": observed_cell(sh, j, i)}})
        for n in res["spec_pairs_bad"]:
            p = sh["extra"][n]
            spec_fail.append({"law": "antisymmetry/totality", "case": case_of(sh, [p["i"], p["j"]]),
                              "observed": {"a_vs_b": p["ij"], "b_vs_a": p["ji"]}})
        for (i, j, k) in _pairs(res["spec_trans_bad"], 3):
            spec_fail.append({"law": "transitivity / equality-equivalence on the claimed domain", "case": case_of(sh, [i, j, k]),
                              "observed": {"a_vs_b": observed_cell(sh, i, j), "b_vs_c": observed_cell(sh, j, k), "a_vs_c": observed_cell(sh, i, k)}})
        for n in res["spec_rules_bad"]:
            r = sh["rules"][n]
            spec_fail.append({"law": "agrees with the published ordering rule: " + r["rule"], "case": case_of(sh, [r["i"], r["j"]]),
                              "observed": {"a_vs_b": r["ij"], "b_vs_a": r["ji"], "published_a_vs_b": r["expect"]}})
        for i in res["corr_parse_bad"]:
            corr_fail.append({"stream": "parse model vs hook structure", "family": fam, "case": case_of(sh, [i]), "hook": sh["strs"][i].get("parse", sh["strs"][i]["pstatus"])})
        for (i, j) in _pairs(res["corr_matrix_bad"], 2):
            corr_fail.append({"stream": "compare model vs observed (pool matrix cell)", "family": fam, "case": case_of(sh, [i, j]),
                              "observed": {"a_vs_b": observed_cell(sh, i, j), "b_vs_a": observed_cell(sh, j, i)}})
        for n in res["corr_pairs_bad"]:
            p = sh["extra"][n]
            corr_fail.append({"stream": "compare model vs observed (pair)", "family": fam, "case": case_of(sh, [p["i"], p["j"]]),
                              "observed": {"a_vs_b": p["ij"], "b_vs_a": p["ji"]}})
    if summary and summary.get("raw_out_of_range"):
        spec_fail.append({"law": "result in {-1,0,+1}", "count": summary["raw_out_of_range"]})
    ctx.log("spec failures=%d correspondence mismatches=%d" % (len(spec_fail), len(corr_fail)))

    # ---------------- evidence
    evals = 0
    rule_hist = {}
    seen = set()
    dist = {}
    samples = []
    triples = 0
    for key in keys:
        sh = shards[key]
        eco = key[0]
        de = dist.setdefault(eco, {"strings": 0, "parse": {}, "outcomes": {}, "unmodelled_alphabet": 0, "length_hist": {}, "pool_in_domain": 0})
        de["strings"] += len(sh["strs"])
        for s in sh["strs"]:
            de["parse"][s["pstatus"]] = de["parse"].get(s["pstatus"], 0) + 1
            if not s["modelled"]:
                de["unmodelled_alphabet"] += 1
            b = str(min(len(s["hex"]) // 2 // 8 * 8, 64))
            de["length_hist"][b] = de["length_hist"].get(b, 0) + 1
        cells = list(sh["matrix"].values()) + sh["extra"]
        for c in cells:
            evals += 1 if c["src"] == "matrix" else 2
            de["outcomes"][c["ij"]] = de["outcomes"].get(c["ij"], 0) + 1
            if c["nt"]:
                a, b = sh["strs"][c["i"]]["hex"], sh["strs"][c["j"]]["hex"]
                seen.add(vlib.sha([eco, a, b]))
        pool = sh["meta"]["pool"]
        triples += pool ** 3
        de["canonical_rule_cases"] = de.get("canonical_rule_cases", 0) + len(sh["rules"])
        for r in sh["rules"]:
            rule_hist[r["rule"]] = rule_hist.get(r["rule"], 0) + 1
        if len(samples) < 6:
            c = sh["extra"][0] if sh["extra"] else cells[1]
            samples.append({"eco": eco, "a": sh["strs"][c["i"]]["s"], "b": sh["strs"][c["j"]]["s"], "a_vs_b": c["ij"], "b_vs_a": c["ji"],
                            "parsed_a": sh["strs"][c["i"]].get("parse"), "parsed_b": sh["strs"][c["j"]].get("parse")})
    for key, res in zip(keys, results):
        dist[key[0]]["pool_in_domain"] += res["in_domain_count"][0]
    ctx.coverage.update({
        "evaluations": evals,
        "distinct_nontrivial": len(seen),
        "rule": "a case is one ordered pair (ecosystem, a, b) run through the real Parse(a).CompareStr(b) (all pairs of a pool of 40 strings "
                "per ecosystem shard, plus further random pairs, both argument orders); distinct by SHA-256 of (ecosystem, a, b); "
                "non-trivial when a <> b and the two strings parse to different structures (or one is rejected and the other not). "
                "Strings: grammar-directed generator with tie families, fixture versions of semantic/testdata, byte-mutation stream.",
        "samples": samples,
        "exhaustive": False,
        "triples_checked_on_pool": triples,
        "pool_strings_in_claimed_domain": in_dom,
        "input_distribution": dist,
        "cases_files": len(keys),
        "canonical_rule_cases": sum(rule_hist.values()),
        "canonical_rule_histogram": rule_hist,
        "canonical_rule_oracle": "expected signs are fixed GENERATOR-SIDE (harness/cmd/semantic/rules.go) by the way the two strings are "
                                 "constructed from the ecosystem's published rules (numeric order decided by math/big on freshly drawn 1-40 digit "
                                 "numbers; documented keyword ladders, separator/spelling/padding equivalences; the documentation's own ordering "
                                 "chains, every ordered pair) and stored in the case; the Coq side (Cases.rule_ok) only compares the implementation's "
                                 "answer, both argument orders, with the stored sign. Independent of the model's comparison code.",
        "known_findings_checked": known,
        "explanation": "correspondence on every string (parse) and every pair (compare); order laws evaluated by vm_compute on the "
                       "implementation's own results: reflexivity on every pool string, antisymmetry and no-panic on every pair, "
                       "transitivity and equality-equivalence on every triple of each pool restricted to the domain of the proved theorem",
    })
    ctx.assumptions += ["math/big arithmetic = Z; strings.Compare = bytewise lexicographic order",
                        "strings.ToLower on cased letters at or above U+0530 is not modelled (such inputs are excluded from the correspondence, counted in input_distribution.*.unmodelled_alphabet)"]

    # ---------------- verdict
    for f in spec_fail[:5]:
        ctx.violation({"kind": "spec-failure", "law": f.get("law"), "case": f.get("case"), "observed": f.get("observed"),
                       "explanation": "the implementation's observed results violate the order law evaluated by vm_compute"})
    if spec_fail:
        return
    if not pa["ok"]:
        ctx.violation({"kind": "proof-broken", "theorems": all_thms, "props_file": PROPS, "log_tail": pa["log_tail"],
                       "explanation": "the Coq development no longer compiles; the oracle found no failing input in this run"}, nofail=True)
    if corr_fail:
        f = corr_fail[0]
        fam = f.get("family")
        ctx.violation({"kind": "correspondence-broken", "correspondence": f["stream"],
                       "theorems_no_longer_tied_to_code": FAMILIES.get(fam, {}).get("theorems", all_thms),
                       "first_mismatch": f, "case": f.get("case"), "mismatches": len(corr_fail),
                       "explanation": "model and implementation disagree on this input, so the theorems no longer speak about "
                                      "the code; the order-law oracle found no input on which the property itself fails"}, nofail=True)


def replay(ctx, path):
    binp, out = ctx.harness_build("semantic")
    if binp is None:
        print(out)
        return 2
    d = os.path.join(vlib.BUILD, "cases", "C07-replay-%d" % os.getpid())
    os.makedirs(d, exist_ok=True)
    rc, out = vlib.sh([binp, "-replay", path, "-outdir", d])
    print(out)
    m = re.search(r"^coq-file: (.*)$", out, re.M)
    if m:
        rc, out = vlib.sh(["coqc", "-Q", os.path.join(vlib.COQ, "theories"), "Scalibr", os.path.basename(m.group(1))], cwd=d, timeout=600)
        print("model and spec (vm_compute):")
        print(out)
    else:
        print("(ecosystem not modelled yet: implementation results only)")
    shutil.rmtree(d, ignore_errors=True)
    return 0

"""C13 - manifest writers change exactly the requested requirements."""
import json
import os
import re
from concurrent.futures import ThreadPoolExecutor

import vlib

LEVEL = "proof"
PROPS = "Writers/Props_C13.v"
COQ_FILES = ["Writers/GoBytes.v", "Writers/GoBytesProofs.v", "Writers/PomProps.v", "Writers/PomPropsProofs.v",
             "Writers/PkgJson.v", "Writers/PkgJsonProofs.v", "Writers/PomDecl.v", "Writers/PomDeclProofs.v", "Writers/PomDeclPropProofs.v", "Writers/PomDeclFullProofs.v", "Writers/PomTokens.v", "Writers/PomTokensProofs.v",
             "Writers/PomWriter.v", "Writers/PomWriterProofs.v",
             "Writers/Proofs.v", "Writers/Props_C13.v"]
COQ_FILES = [f for f in COQ_FILES if os.path.exists(os.path.join(vlib.COQ, "theories", f))]

# one entry per harness mode: Coq case type, functions, what the correspondence ties, theorems tied by it
MODES = {
    "props": {
        "type": "pcase", "model_ok": "pcase_model_ok", "spec_ok": "pcase_spec_ok", "spec_full": "pcase_spec_full",
        "domains": ["(fun c => has_placeholder (pc_s1 c))"],
        "domain_names": ["s1_has_placeholder"],
        "corr": "maven.generatePropertyPatches (Go) vs Writers.PomProps.generate_property_patches (Coq, vm_compute)",
        "theorems": ["prop_patches_sound", "prop_patches_total", "prop_patches_fuel_sufficient"],
        "quick": 1500, "thorough": 30000, "per": 150,
    },
    "pkgjson": {
        "type": "jcase", "model_ok": "jcase_model_ok", "spec_ok": "jcase_spec_ok", "spec_full": "jcase_spec_full",
        "domains": ["jcase_in_fragment", "jcase_supported_names", "jcase_escaped_names", "jcase_claimed"],
        "domain_names": ["in_modelled_fragment", "names_supported_by_escape", "some_name_needs_escaping", "claimed"],
        "corr": "npm readWriter.Write (Go, gjson/sjson, escaped path) vs Writers.PkgJson.write_pkgjson (Coq, vm_compute)",
        "theorems": ["pkgjson_write_exact", "pkgjson_only_values_change", "pkgjson_reread_exact",
                     "pkgjson_no_updates_identity", "pkgjson_success_implies_applied"],
        "quick": 800, "thorough": 14000, "per": 50,
    },
    "pom": {
        "type": "mcase", "model_ok": "mcase_model_ok", "spec_ok": "mcase_spec_ok", "spec_full": "mcase_spec_full",
        "domains": ["mcase_in_domain", "(fun c => d_multi (mc_chain c) (mc_updates c))", "(fun c => d_lit (mc_chain c) (mc_updates c))",
                    "(fun c => match mc_updates c with [u] => d_prop (mc_chain c) u | _ => false end)",
                    "(fun c => existsb (d_add (mc_chain c)) (mc_updates c))",
                    "(fun c => mc_chain_ok c && chain_frag (mc_chain c) (mc_updates c))", "mc_tok_dump_ok", "mc_claimed"],
        "domain_names": ["d_full_and_token_domain", "d_multi", "d_lit", "d_prop", "has_d_add_update", "model_compared", "token_model_compared", "harness_structural_domain"],
        "corr": "maven readWriter.Write (Go): written version declarations and property definitions of every pom of the chain vs "
                "Writers.PomDecl.write_chain (Coq, vm_compute); Write panics vs Writers.PomWriter.write_panics",
        "theorems": ["pom_decl_write_exact_on_D_full", "pom_decl_write_exact_on_D", "pom_decl_property_update_exact_on_D",
                     "pom_decl_added_management_present",
                     "pom_added_entry_lost_refuted", "pom_decl_no_updates_identity", "pom_write_never_panics",
                     "pom_tokens_preserved", "pom_no_updates_identity", "pom_comment_inside_version_refuted",
                     "pom_origin_ignored_refuted", "pom_shared_property_refuted", "pom_property_in_parent_refuted"],
        "quick": 500, "thorough": 6000, "per": 25,
    },
}


def enabled_modes():
    have = set(COQ_FILES)
    out = ["props"]
    if "Writers/PkgJson.v" in have:
        out.append("pkgjson")
    if "Writers/PomWriter.v" in have:
        out.append("pom")
    return out


META = {
    "technique": "Coq model of the byte/token-level writers (generatePropertyPatches with panic-capable slices, the gjson/sjson path "
                 "edits of the package.json writer, the pom.xml token rewriter) + proofs of exactness/identity/no-panic on characterised "
                 "domains + refutations by vm_compute witness + vm_compute correspondence and round-trip oracle against the real writers",
    "level_text": "After the two fix commits in /repo: prop_patches_sound / prop_patches_total (generatePropertyPatches, every s1 s2: "
                  "reported success means the property values interpolate s1 to s2; no slice panic) at full strength; "
                  "pkgjson_write_exact, pkgjson_only_values_change, pkgjson_reread_exact, pkgjson_no_updates_identity, "
                  "pkgjson_success_implies_applied (package.json: exact byte-level effect of Write for every name -- dots, wildcards, "
                  "scopes, pipes -- except the stated residual: names starting with ':', which gjson.Escape does not cover); the models "
                  "are tied to the code on every run by vm_compute on the inputs the real functions were run on; the witnesses of the "
                  "fixed findings run first as a regression corpus judged at full strength. pom.xml: the declaration level is modelled "
                  "(PomDecl.v: buildPatches origin selection and the effect on every version declaration/property of the pom chain), "
                  "tied on every case, with pom_decl_write_exact_on_D (literal versions, any number of updates, any origin incl. parents' "
                  "profiles), pom_decl_property_update_exact_on_D (one update of a ${property} version), pom_decl_no_updates_identity, pom_write_never_panics and three _refuted theorems for the known findings; "
                  "PARTIAL: the token level (same XML token sequence, comments, CDATA, inserted block) is decided by the harness's "
                  "encoding/xml oracle only, and several ${property} updates at once are claimed by the oracle on d_full without a proof.",
    "level_note": "Trusted: Coq kernel + vm_compute; Go harness harness/cmd/writers (generators, encoding/json and encoding/xml as "
                  "decoders for the oracle); gjson/sjson are modelled on the fragment documented in PkgJson.v (keys outside it are "
                  "excluded from the model comparison but not from the oracle); hooks guidedremediation/verif_export_c13.go and "
                  "guidedremediation/internal/manifest/maven/verif_export.go.",
    "design_ref": "DESIGN.md section 5 C13",
}


def all_theorems_static():
    return [t for m in MODES for t in MODES[m]["theorems"]]


def describe(c):
    return c


def known_for(ctx, mode):
    return [e for e in ctx.known_findings() if e.get("mode") == mode]


def header_for(mode, txt):
    return txt[:txt.index("Definition cases_0")] if "Definition cases_0" in txt else txt


def eval_chunks(ctx, mode, vfile):
    """Shard the chunk definitions of a cases file over parallel coqc processes.
    Returns corr_bad, spec_bad, full_bad (global indices) and per-domain counts."""
    cfg = MODES[mode]
    txt = open(vfile).read()
    header = header_for(mode, txt)
    chunks = re.findall(r"(Definition (cases_\d+) : list %s :=\n.*?\]\.\n)" % cfg["type"], txt, re.S)
    per = cfg["per"]

    def one(k):
        body, name = chunks[k]
        v = header + body + (
            "Definition corr_bad := Eval vm_compute in bad_indices %s %s 0.\nPrint corr_bad.\n"
            "Definition spec_bad := Eval vm_compute in bad_indices %s %s 0.\nPrint spec_bad.\n"
            "Definition full_bad := Eval vm_compute in bad_indices %s %s 0.\nPrint full_bad.\n"
            % (cfg["model_ok"], name, cfg["spec_ok"], name, cfg["spec_full"], name))
        v += "Definition dom_count := Eval vm_compute in [%s].\nPrint dom_count.\n" % "; ".join(
            "count_true %s %s" % (d, name) for d in cfg["domains"])
        rc, out = ctx.run_cases("C13_%s_shard_%d" % (mode, k), v)
        cb = vlib.parse_printed_list(out, "corr_bad")
        sb = vlib.parse_printed_list(out, "spec_bad")
        fb = vlib.parse_printed_list(out, "full_bad")
        dc = vlib.parse_printed_list(out, "dom_count")
        if rc != 0 or cb is None or sb is None or fb is None or dc is None:
            raise RuntimeError("cases shard %s/%d failed: %s" % (mode, k, out[-1500:]))
        off = k * per
        return [off + i for i in cb], [off + i for i in sb], [off + i for i in fb], dc

    corr, spec, full = [], [], []
    dom = [0] * len(cfg["domains"])
    with ThreadPoolExecutor(max_workers=12) as ex:
        for cb, sb, fb, dc in ex.map(one, range(len(chunks))):
            corr += cb
            spec += sb
            full += fb
            dom = [a + b for a, b in zip(dom, dc)]
    return corr, spec, full, dom


def replay_known(ctx, binp, mode):
    """Replay every known-finding witness of this mode on the implementation and in Coq.
    still failing + model agrees -> KNOWN-FINDING line; witness no longer failing while the model
    still predicts the failure -> correspondence break naming the stale theorem."""
    cfg = MODES[mode]
    entries = known_for(ctx, mode)
    if not entries:
        return []
    d = os.path.join(vlib.BUILD, "cases")
    os.makedirs(d, exist_ok=True)
    terms = []
    for n, e in enumerate(entries):
        wp = os.path.join(d, "C13_known_%s_%d.json" % (mode, n))
        json.dump(e["witness"], open(wp, "w"))
        rc, out = vlib.sh([binp, "-mode", mode, "-replay", wp], timeout=120)
        m = [l for l in out.splitlines() if l.startswith("coq-case: ")]
        if rc != 0 or not m:
            raise RuntimeError("known-finding replay failed (%s): %s" % (e["id"], out[-800:]))
        terms.append(m[0][len("coq-case: "):])
    hdr = HEADERS[mode]
    v = hdr + "Definition ks : list %s :=\n [ %s ].\n" % (cfg["type"], ";\n   ".join(terms))
    v += ("Definition k_corr_bad := Eval vm_compute in bad_indices %s ks 0.\nPrint k_corr_bad.\n"
          "Definition k_full_bad := Eval vm_compute in bad_indices %s ks 0.\nPrint k_full_bad.\n"
          "Definition k_spec_bad := Eval vm_compute in bad_indices %s ks 0.\nPrint k_spec_bad.\n"
          % (cfg["model_ok"], cfg["spec_full"], cfg["spec_ok"]))
    rc, out = ctx.run_cases("C13_known_%s" % mode, v)
    kc = vlib.parse_printed_list(out, "k_corr_bad")
    kf = vlib.parse_printed_list(out, "k_full_bad")
    ks = vlib.parse_printed_list(out, "k_spec_bad")
    if rc != 0 or kc is None or kf is None or ks is None:
        raise RuntimeError("known-finding evaluation failed: " + out[-1500:])
    res = []
    for n, e in enumerate(entries):
        still_fails = n in kf
        model_agrees = n not in kc
        inside_domain = n in ks          # the domain-restricted oracle also fails: witness is NOT covered by the exclusion
        res.append({"id": e["id"], "still_fails": still_fails, "model_agrees": model_agrees})
        if still_fails and model_agrees and not inside_domain:
            ctx.print_known(e)
        elif still_fails and inside_domain:
            ctx.violation({"kind": "spec-failure", "case": e["witness"], "known_id": e["id"],
                           "explanation": "listed witness fails inside the domain of %s" % e.get("domain_theorem")})
        else:
            ctx.violation({"kind": "stale-known-finding", "known_id": e["id"], "witness": e["witness"],
                           "stale_theorem": e.get("refuted_theorem"), "still_fails": still_fails,
                           "model_agrees": model_agrees, "correspondence": cfg["corr"],
                           "explanation": "the listed witness no longer fails on the implementation or the model no longer "
                                          "reproduces it; the refuted-theorem and the model describe code that has changed"},
                          nofail=True)
    return res


def fixed_entries(mode):
    """Entries of KNOWN_FINDINGS.d/C13.json with status fixed: their witnesses are the regression corpus."""
    try:
        k = json.load(open(os.path.join(vlib.VERIF, "KNOWN_FINDINGS.d", "C13.json")))
    except FileNotFoundError:
        return []
    return [e for e in k if e.get("property") == "C13" and e.get("status") == "fixed" and e.get("mode") == mode]


def run_regression(ctx, binp, mode):
    """Regression corpus: witnesses of fixed findings, run first, judged at FULL strength (no domain):
    model = implementation and the full statement holds on the implementation's own output. Nothing is
    printed as KNOWN-FINDING for them; a failure is a VIOLATION carrying the old witness."""
    cfg = MODES[mode]
    entries = fixed_entries(mode)
    if not entries:
        return []
    d = os.path.join(vlib.BUILD, "cases")
    os.makedirs(d, exist_ok=True)
    terms = []
    for n, e in enumerate(entries):
        wp = os.path.join(d, "C13_regr_%s_%d.json" % (mode, n))
        json.dump(e["witness"], open(wp, "w"))
        rc, out = vlib.sh([binp, "-mode", mode, "-replay", wp], timeout=120)
        m = [l for l in out.splitlines() if l.startswith("coq-case: ")]
        if rc != 0 or not m:
            raise RuntimeError("regression replay failed (%s): %s" % (e["id"], out[-800:]))
        terms.append(m[0][len("coq-case: "):])
    v = HEADERS[mode] + "Definition ks : list %s :=\n [ %s ].\n" % (cfg["type"], ";\n   ".join(terms))
    v += ("Definition r_corr_bad := Eval vm_compute in bad_indices %s ks 0.\nPrint r_corr_bad.\n"
          "Definition r_full_bad := Eval vm_compute in bad_indices %s ks 0.\nPrint r_full_bad.\n"
          % (cfg["model_ok"], cfg["spec_full"]))
    rc, out = ctx.run_cases("C13_regr_%s" % mode, v)
    rc_bad = vlib.parse_printed_list(out, "r_corr_bad")
    rf_bad = vlib.parse_printed_list(out, "r_full_bad")
    if rc != 0 or rc_bad is None or rf_bad is None:
        raise RuntimeError("regression evaluation failed: " + out[-1500:])
    res = []
    for n, e in enumerate(entries):
        ok_full, ok_model = n not in rf_bad, n not in rc_bad
        res.append({"id": e["id"], "fix_commit": e.get("fix_commit"), "full_statement_holds": ok_full, "model_agrees": ok_model})
        if not ok_full:
            ctx.violation({"kind": "spec-failure", "regression_of": e["id"], "fix_commit": e.get("fix_commit"),
                           "case": dict(e["witness"], mode=mode),
                           "explanation": "the witness of a FIXED finding fails the full statement again: the defect is back"})
        elif not ok_model:
            ctx.violation({"kind": "correspondence-broken", "regression_of": e["id"], "correspondence": cfg["corr"],
                           "first_mismatch": dict(e["witness"], mode=mode), "theorems_no_longer_tied_to_code": cfg["theorems"],
                           "explanation": "model and implementation disagree on the witness of a fixed finding"}, nofail=True)
    return res


HEADERS = {
    "props": "From Coq Require Import List ZArith NArith Bool.\nFrom Scalibr Require Import Writers.GoBytes Writers.PomProps.\nImport ListNotations.\n",
    "pkgjson": "From Coq Require Import List ZArith NArith Bool.\nFrom Scalibr Require Import Writers.GoBytes Writers.PkgJson.\nImport ListNotations.\n",
    "pom": "From Coq Require Import List ZArith NArith Bool.\nFrom Scalibr Require Import Writers.GoBytes Writers.PomProps Writers.PomDecl Writers.PomTokens Writers.PomWriter.\nImport ListNotations.\n",
}


def nontrivial(mode, c):
    if mode == "props":
        return "${" in c["s1"] and "}" in c["s1"] and c["s2"] != ""
    return len(c.get("updates") or []) >= 1 or c.get("stream") == "zero-updates"


def canonical(mode, c):
    if mode == "props":
        return [mode, c["s1"], c["s2"]]
    return [mode, c.get("files") or c.get("doc"), c.get("updates")]


def run(ctx):
    bad = ctx.gate(COQ_FILES)
    if bad:
        ctx.violation({"kind": "gate", "hits": bad}, nofail=True)
    pa = ctx.prove(PROPS, clean=(COQ_FILES if ctx.tier == "thorough" else False))
    ctx.log("proof ok=%s obligations=%d closed=%d" % (pa["ok"], pa["obligations"], pa["print_assumptions_closed"]))
    vlib.proof_coverage(ctx, pa)
    if ctx.tier == "thorough" and pa["ok"]:
        chk = ctx.coqchk(["Scalibr.Writers.Props_C13"])
        ctx.coverage["coqchk"] = chk
        ctx.log("coqchk rc=%d (%.1fs)" % (chk["rc"], chk["wall_s"]))
        if chk["rc"] != 0:
            ctx.proof_ok = False
            ctx.violation({"kind": "coqchk-failed", "output": chk["output_tail"], "theorems": all_theorems_static()}, nofail=True)
    modes = enabled_modes()
    all_theorems = [t for m in modes for t in MODES[m]["theorems"]]
    tb_extra = [
        "Go harness harness/cmd/writers (generators; encoding/json, encoding/xml token decoding for the round-trip oracle)",
        "hooks /repo/guidedremediation/verif_export_c13.go (VerifManifestRead/Write, VerifGeneratePropertyPatches) and "
        "/repo/guidedremediation/internal/manifest/maven/verif_export.go",
        "modelled on a documented fragment, not verified: tidwall/gjson path syntax and sjson in-place replacement; "
        "the forked encoding/xml decoder/encoder pair (oracle for pom.xml tokens); deps.dev maven.Project decoding",
    ]
    binp, out = ctx.harness_build("writers")
    if binp is None:
        ctx.violation({"kind": "harness-build-failed", "log": out[-3000:],
                       "correspondence": "; ".join(MODES[m]["corr"] for m in modes),
                       "theorems_no_longer_tied_to_code": all_theorems}, nofail=True)
        ctx.coverage["trusted_base"] = vlib.std_trusted_base(pa, tb_extra)
        return
    d = os.path.join(vlib.BUILD, "cases")
    os.makedirs(d, exist_ok=True)

    evaluations = 0
    seen = set()
    dist = {}
    samples = []
    per_mode = {}
    known_results = []
    regression_results = []
    for mode in modes:               # regression corpus first
        regression_results += run_regression(ctx, binp, mode)
    ctx.log("regression corpus: %d witnesses of fixed findings, %d failing" % (
        len(regression_results), sum(1 for r in regression_results if not (r["full_statement_holds"] and r["model_agrees"]))))
    all_corr, all_spec = [], []      # (mode, index)
    all_cases = {}
    for mode in modes:
        cfg = MODES[mode]
        known_results += replay_known(ctx, binp, mode)
        vfile = os.path.join(d, "C13_%s_cases.v" % mode)
        side = os.path.join(d, "C13_%s_cases.jsonl" % mode)
        n = cfg["thorough"] if ctx.tier == "thorough" else cfg["quick"]
        rc, out = vlib.sh([binp, "-mode", mode, "-out", vfile, "-jsonl", side, "-seed", str(ctx.seed),
                           "-n", str(n), "-per", str(cfg["per"])], timeout=3000)
        if rc != 0:
            raise RuntimeError("harness failed (%s): %s" % (mode, out[-2000:]))
        cases = [json.loads(l) for l in open(side)]
        all_cases[mode] = cases
        corr, spec, full, dom = eval_chunks(ctx, mode, vfile)
        ctx.log("%s: %d cases corr_bad=%d spec_bad=%d outside-domain-failures=%d domains=%s" % (
            mode, len(cases), len(corr), len(spec), len(set(full) - set(spec)), dict(zip(cfg["domain_names"], dom))))
        all_corr += [(mode, i) for i in corr]
        all_spec += [(mode, i) for i in spec]
        evaluations += len(cases)
        streams = {}
        outcomes = {}
        for c in cases:
            streams[c.get("stream", "?")] = streams.get(c.get("stream", "?"), 0) + 1
            o = c.get("outcome") or ("panic" if c.get("panic") else ("ok" if c.get("ok") else "false"))
            outcomes[o] = outcomes.get(o, 0) + 1
            if nontrivial(mode, c):
                seen.add(vlib.sha(canonical(mode, c)))
        dist[mode] = {"streams": streams, "outcomes": outcomes, "cases": len(cases),
                      "in_domain": dict(zip(cfg["domain_names"], dom)),
                      "fail_full_statement_outside_domain": len(set(full) - set(spec))}
        per_mode[mode] = {"cases": len(cases), "corr_bad": len(corr), "spec_bad": len(spec)}
        if cases:
            samples += [dict(cases[i], mode=mode) for i in sorted({0, len(cases) // 2, len(cases) - 1})]

    ctx.coverage.update({
        "evaluations": evaluations,
        "distinct_nontrivial": len(seen),
        "rule": "a case is one input run through the real function (generatePropertyPatches: (s1, s2); writers: manifest file(s) + "
                "update set run through Read, Write, Read); distinct by SHA-256 of the canonical input; non-trivial when (props) s1 "
                "contains a placeholder and s2 is non-empty, (writers) >= 1 update is addressed to a present requirement, plus the "
                "dedicated zero-update stream (DESIGN.md section 14, C13)",
        "samples": samples[:9],
        "exhaustive": False,
        "input_distribution": dist,
        "vm_compute_cases": evaluations,
        "per_mode": per_mode,
        "modes_modelled": modes,
        "pom_half": "Declaration level MODELLED AND TIED (PomDecl.v): buildPatches (OriginalDependency = first declaration by key, "
                    "parentPathFromOrigin, property-vs-literal via generate_property_patches, property origin, preset conflicts) and "
                    "the effect of the patches on every version declaration and property definition of every pom of the chain; the "
                    "written declarations/properties are compared with write_chain on every case, the independent effective-version "
                    "spec (decl_spec_ok) is evaluated on the implementation's own output; pom_decl_write_exact_on_D is proved on d_lit "
                    "(literal versions, any number of updates), pom_decl_property_update_exact_on_D on d_prop (one update of a "
                    "${property} version), pom_decl_added_management_present on d_add (an added managed dependency becomes a "
                    "project-level management declaration of the main pom, wherever the chain has dependencyManagement sections); pom_decl_write_exact_on_D_full on d_multi (SEVERAL updates at once, literal / ${property} / added mixed); the oracle "
                    "claims d_full = d_multi plus versions that repeat a placeholder name (that rest tied by vm_compute, not proved). TOKEN LEVEL (PomTokens.v), first step: the writer as a token-stream "
                    "transformer (copy everything except the content of <version> elements under dependency/parent and of addressed "
                    "<properties> children), its decisions taken from the declaration-level model; the written token stream of every pom "
                    "(encoding/xml tokens, interned) is compared with the model on every case without added entries; proved: "
                    "pom_tokens_preserved, pom_no_updates_identity (decoder/encoder as parameters with decode(encode t)=t, which the "
                    "per-case comparison of the decoded output validates), pom_comment_inside_version_refuted. ORACLE-ONLY: the inserted "
                    "dependencyManagement entries/block at token level (their shape, order, indentation), attribute/namespace "
                    "re-encoding details below the token abstraction, and that the forked decoder/encoder pair really round-trips "
                    "(checked per case, not proved); plus the re-read requirements and the Go effective-version reference as cross-checks",
        "known_findings_results": known_results,
        "regression_corpus": regression_results,
    })
    ctx.coverage["trusted_base"] = vlib.std_trusted_base(pa, tb_extra)
    ctx.assumptions += [
        "gjson.GetBytes/sjson.SetBytes/gjson.Escape behave as PkgJson.path_lookup/path_set/escape on documents and keys inside the modelled fragment "
        "(validated on every generated case by the correspondence)",
        "Go map iteration order is irrelevant for generatePropertyPatches (single map, last write wins)",
    ]
    # decide
    flat_cases = []
    idx = {}
    for mode in modes:
        for i, c in enumerate(all_cases[mode]):
            idx[(mode, i)] = len(flat_cases)
            flat_cases.append(dict(c, mode=mode))
    corr_names = "; ".join(MODES[m]["corr"] for m in sorted({m for m, _ in all_corr})) or "; ".join(MODES[m]["corr"] for m in modes)
    vlib.standard_decide(ctx, pa, [idx[k] for k in all_corr], [idx[k] for k in all_spec], flat_cases, describe,
                         all_theorems, corr_names)


def replay(ctx, path):
    obj = json.load(open(path))
    case = obj.get("case", obj.get("first_mismatch", obj.get("witness", obj)))
    mode = case.get("mode") or obj.get("mode") or "props"
    binp, out = ctx.harness_build("writers")
    if binp is None:
        print(out)
        return 2
    d = os.path.join(vlib.BUILD, "cases")
    os.makedirs(d, exist_ok=True)
    wp = os.path.join(d, "C13_replay_in.json")
    json.dump(case, open(wp, "w"))
    rc, out = vlib.sh([binp, "-mode", mode, "-replay", wp])
    print(out)
    m = [l for l in out.splitlines() if l.startswith("coq-case: ")]
    if m:
        cfg = MODES[mode]
        v = HEADERS[mode] + "Definition c : %s := %s.\n" % (cfg["type"], m[0][len("coq-case: "):])
        v += ("Definition model_agrees := Eval vm_compute in %s c.\nPrint model_agrees.\n"
              "Definition spec_on_domain := Eval vm_compute in %s c.\nPrint spec_on_domain.\n"
              "Definition spec_full_statement := Eval vm_compute in %s c.\nPrint spec_full_statement.\n"
              % (cfg["model_ok"], cfg["spec_ok"], cfg["spec_full"]))
        if mode == "props":
            v += "Definition model := Eval vm_compute in generate_property_patches (pc_s1 c) (pc_s2 c).\nPrint model.\n"
        rc, out = ctx.run_cases("C13_replay", v)
        print(out)
    return 0

"""C12 - a reported fix is a real fix: re-analysis matches the report."""
import json
import os
import re
import tempfile
from concurrent.futures import ThreadPoolExecutor

import vlib

LEVEL = "proof"
PROPS = "Reanalysis/Props_C12.v"
COQ_FILES = ["Lib/SortSearch.v", "Reanalysis/Patch.v", "Reanalysis/Cases.v", "Reanalysis/Proofs.v", "Reanalysis/Props_C12.v"]
THEOREMS = ["diff_apply_roundtrip", "diff_apply_roundtrip_npm", "diff_apply_roundtrip_maven", "diff_ignores_removed_refuted",
            "fixed_introduced_algebra", "reanalysis_matches_report", "no_patch_no_change", "applied_fix_not_unactionable",
            "reported_fix_listed_and_actionable", "choose_at_most_max", "choose_no_introduce", "choose_from_candidates",
            "choose_pairwise_compatible", "up_iff_path", "match_depth_iff", "match_severity_iff", "match_vuln_characterised"]
CORR = ("remediation.ConstructPatches / ResolveGraphVulns+MatchVuln / guidedremediation.choosePatches / computeVulnsResult / "
        "FixVulns + fresh analysis (Go) vs Reanalysis.Patch (Coq, vm_compute)")

# kind -> (chunk name, Coq type, model_ok, spec_ok)
KINDS = [
    ("construct", "ccases", "ccase", "ccase_model_ok", "ccase_spec_ok"),
    ("choose", "hcases", "hcase", "hcase_model_ok", "hcase_spec_ok"),
    ("vulns_result", "vcases", "vcase", "vcase_model_ok", "vcase_spec_ok"),
    ("filter", "fcases", "fcase", "fcase_model_ok", "fcase_spec_ok"),
    ("tworun", "tcases", "tcase", "tcase_model_ok", "tcase_spec_ok"),
    ("graph", "gcases", "gcase", "gcase_model_ok", "gcase_spec_ok"),
]

SIZES = {
    "quick": {"tworun": 700, "explicit": 200, "odd": 40, "pinned": 160, "devflip": 12, "construct": 500, "wild": 300, "choose": 500, "vresult": 250,
              "match": 250},
    "thorough": {"tworun": 14000, "explicit": 3500, "odd": 500, "pinned": 2500, "devflip": 80, "construct": 10000, "wild": 5000, "choose": 10000,
                 "vresult": 3000, "match": 3000},
}
PER = 100

META = {
    "technique": "Coq model of ConstructPatches / ResolveGraphVulns / MatchVuln (ignore list, explicit list, dev-only) / choosePatches / "
                 "computeVulnsResult / PatchRequirement and of the analyse-fix-write-analyse pipeline; proofs of the diff round trip, "
                 "the fixed/introduced algebra and the re-analysis theorem with reader/writer/resolver as premises; vm_compute "
                 "correspondence + two-run oracle (real FixVulns, then a fresh analysis of the written file); regression corpus of the "
                 "repaired defects run first",
    "level_text": "Theorem reanalysis_matches_report: if the writer wrote exactly the chosen patch's updates (C13) and resolution + "
                  "vulnerability matching is a function of the requirement map, a fresh analysis of the written manifest reports "
                  "exactly (original - fixed) + introduced, for every manifest, candidate list and option set (any ignore list, any "
                  "explicit list - full strength since fix ad14cb22). diff_apply_roundtrip, fixed_introduced_algebra, "
                  "no_patch_no_change, applied_fix_not_unactionable, choose_at_most_max, choose_no_introduce are proved for all inputs. "
                  "The model is tied to the code on every run by vm_compute on recorded inputs/outputs of the real functions, and the "
                  "property sentence itself is evaluated on every generated two-run case without any domain restriction (npm relax, "
                  "Maven override; in-place has no lockfile ReadWriter in this tree).",
    "level_note": "Trusted: Coq kernel + vm_compute; Go harness harness/cmd/reanalysis (string ranks, type ranks via dep.Type.Compare); "
                  "hook guidedremediation/verif_export_c12.go. Premises of the pipeline theorem (validated on every two-run case by "
                  "the oracle, not proved): manifest writer/reader exactness (property C13), deps.dev resolve + matcher are functions "
                  "of the requirement map. CVSS parsing, Patch.Compare ordering and the strategies' search are oracles; the depth filter and "
                  "the severity threshold comparison are modelled (match_vuln_characterised).",
    "design_ref": "DESIGN.md section 5 C12",
}
CORPUS = os.path.join(vlib.HARNESS, "cmd", "reanalysis", "corpus")


def describe(c):
    return c


def harness_args(ctx, tier):
    s = SIZES[tier]
    return ["-seed", str(ctx.seed), "-tworun", str(s["tworun"]), "-explicit", str(s["explicit"]), "-odd", str(s["odd"]), "-pinned", str(s["pinned"]), "-devflip", str(s["devflip"]),
            "-construct", str(s["construct"]), "-wild", str(s["wild"]), "-choose", str(s["choose"]),
            "-vresult", str(s["vresult"]), "-match", str(s["match"]), "-per", str(PER)]


def split_chunks(txt):
    """-> header, {chunkname_prefix: [(name, body)]}"""
    first = re.search(r"^Definition [a-z]+cases(_\d+)? : list", txt, re.M)
    header = txt[:first.start()]
    chunks = {}
    for m in re.finditer(r"(Definition ([a-z]+cases)_(\d+) : list [a-z]+ :=\n.*?\]\.\n)", txt, re.S):
        chunks.setdefault(m.group(2), []).append((m.group(2) + "_" + m.group(3), m.group(1)))
    return header, chunks


def eval_chunk(ctx, header, kind, name, body, tag):
    _, _, ty, model_ok, spec_ok = kind
    v = header + body + (
        "Definition corr_bad := Eval vm_compute in bad_indices %s %s 0.\nPrint corr_bad.\n"
        "Definition spec_bad := Eval vm_compute in bad_indices %s %s 0.\nPrint spec_bad.\n" % (model_ok, name, spec_ok, name))
    if ty == "ccase":
        v += ("Definition outside_rt := Eval vm_compute in bad_indices (fun c => roundtrip_domain (cc_mgmt c) (m_reqs (cc_old c)) (m_reqs (cc_new c))) %s 0.\nPrint outside_rt.\n"
              % name)
    rc, out = ctx.run_cases("C12_%s_%s" % (tag, name), v)
    res = {k: vlib.parse_printed_list(out, k) for k in ("corr_bad", "spec_bad", "outside_rt")}
    if rc != 0 or res["corr_bad"] is None or res["spec_bad"] is None:
        raise RuntimeError("cases chunk %s failed: %s" % (name, out[-2000:]))
    return res


def run_corpus(ctx, binp):
    """Regression corpus (witnesses of repaired defects): replayed first, at full strength.
    Returns (names, corr_failures). A spec failure is reported at once with the concrete input."""
    import glob
    names, corr_fail = [], []
    for f in sorted(glob.glob(os.path.join(CORPUS, "*.json"))):
        w = json.load(open(f))
        with tempfile.TemporaryDirectory(prefix="c12k-") as d:
            vf = os.path.join(d, "k.v")
            rc, o = vlib.sh([binp, "-replay", f, "-out", vf], timeout=300)
            if rc != 0:
                raise RuntimeError("corpus replay failed: " + o[-1500:])
            header, chunks = split_chunks(open(vf).read())
            name, body = chunks["tcases"][0]
            res = eval_chunk(ctx, header, KINDS[4], name, body, "corpus_" + re.sub(r"\W", "_", w["id"]))
        names.append(w["id"])
        # optional expectations on what the reader sees, repeated (the defect was nondeterministic)
        if "expect_requirements" in w:
            counts = set()
            for _ in range(int(w.get("repeat", 1))):
                rc, o = vlib.sh([binp, "-replay", f], timeout=300)
                counts.add(len(json.loads(o[:o.index("coq-case:")])["requirements_before"] or []))
            if counts != {w["expect_requirements"]}:
                ctx.violation({"kind": "spec-failure", "regression_corpus": w["id"], "what": w.get("what"),
                               "case": {"universe": w["universe"], "opts": w["opts"]},
                               "requirements_read": sorted(counts), "expected": w["expect_requirements"],
                               "explanation": "a repaired defect is back: the manifest reader does not return every requirement of this file"})
                continue
        if res["spec_bad"]:
            ctx.violation({"kind": "spec-failure", "regression_corpus": w["id"], "what": w.get("what"),
                           "case": {"universe": w["universe"], "opts": w["opts"]},
                           "explanation": "a repaired defect is back: the property sentence fails on this corpus input"})
        elif res["corr_bad"]:
            corr_fail.append(w)
    return names, corr_fail


def run(ctx):
    bad = ctx.gate(COQ_FILES)
    if bad:
        ctx.violation({"kind": "gate", "hits": bad}, nofail=True)
    pa = ctx.prove(PROPS, clean=(COQ_FILES[1:] if ctx.tier == "thorough" else False))
    ctx.log("proof ok=%s obligations=%d closed=%d" % (pa["ok"], pa["obligations"], pa["print_assumptions_closed"]))
    vlib.proof_coverage(ctx, pa)
    if pa["ok"] and pa["print_assumptions_closed"] < len(THEOREMS):
        pa["ok"] = False
        pa["log_tail"] = "only %d of %d theorems are closed under the global context\n" % (
            pa["print_assumptions_closed"], len(THEOREMS)) + pa["log_tail"]
    if ctx.tier == "thorough" and pa["ok"]:
        ctx.coqchk(["Scalibr.Reanalysis.Props_C12"])
    tb_extra = [
        "Go harness harness/cmd/reanalysis (strings -> ranks under Go string order, dep.Type -> rank under dep.Type.Compare; "
        "universes as deps.dev resolve/schema text, in-memory OSV matcher using vulns.IsAffected)",
        "hooks /repo/guidedremediation/verif_export_c12.go (VerifC12*) and verif_export.go (VerifIsAffected)",
        "premises of reanalysis_matches_report (checked by the two-run oracle on every case, not proved): writer/reader exactness "
        "(C13), deps.dev npm/Maven resolvers and the matcher are functions of the requirement map, FindVulnerabilities lists an ID once",
        "oracles (modelled as recorded answers): CVSS score parsing (severity.CalculateScore) and the choice of the applicable "
        "affected[] entry (IsAffected, C18) inside matchSeverity, DevOnly, result.Patch.Compare ordering of candidates, the "
        "override/relax search itself (C11). The depth filter (ComputeSubgraphs distances + matchDepth) and the severity threshold "
        "comparison are modelled and tied by the graph stream.",
    ]
    binp, out = ctx.harness_build("reanalysis")
    if binp is None:
        ctx.violation({"kind": "harness-build-failed", "log": out[-3000:], "correspondence": CORR,
                       "theorems_no_longer_tied_to_code": THEOREMS}, nofail=True)
        ctx.coverage["trusted_base"] = vlib.std_trusted_base(pa, tb_extra)
        return
    rc, out = ctx.coq_make(["theories/Reanalysis/Cases.vo"])   # not in the cone of the Props file
    if rc != 0:
        raise RuntimeError("Reanalysis/Cases.v does not compile: " + out[-2000:])
    for e in ctx.known_findings():   # none is open for C12; an open entry without machinery must not pass silently
        raise RuntimeError("KNOWN_FINDINGS entry %s has status known but C12 has no domain restriction any more" % e["id"])
    corpus_names, corpus_corr = run_corpus(ctx, binp)
    ctx.log("regression corpus: %d inputs, %d correspondence mismatches" % (len(corpus_names), len(corpus_corr)))

    d = os.path.join(vlib.BUILD, "cases")
    os.makedirs(d, exist_ok=True)
    vfile = os.path.join(d, "C12_cases.v")
    side = os.path.join(d, "C12_cases.jsonl")
    args = harness_args(ctx, ctx.tier)
    rc, out = vlib.sh([binp, "-out", vfile, "-jsonl", side] + args, timeout=3000)
    if rc != 0:
        raise RuntimeError("harness failed: " + out[-2000:])
    by_kind = {}
    for l in open(side):
        c = json.loads(l)
        by_kind.setdefault(c["kind"], []).append(c)
    cases, offset = [], {}
    for kind in KINDS:
        offset[kind[0]] = len(cases)
        for i, c in enumerate(by_kind.get(kind[0], [])):
            cases.append({"kind": kind[0], "index_in_kind": i, "pick": "%s:%d" % (kind[1], i), "harness_args": args, "case": c})
    ctx.log("harness ran %d cases (%s)" % (len(cases), ", ".join("%s=%d" % (k[0], len(by_kind.get(k[0], []))) for k in KINDS)))

    header, chunks = split_chunks(open(vfile).read())
    jobs = []
    for kind in KINDS:
        for k, (name, body) in enumerate(chunks.get(kind[1], [])):
            jobs.append((kind, k, name, body))
    corr_bad, spec_bad = [], []
    outside_rt = []

    def one(job):
        kind, k, name, body = job
        return job, eval_chunk(ctx, header, kind, name, body, "run")

    with ThreadPoolExecutor(max_workers=14) as ex:
        for (kind, k, name, body), res in ex.map(one, jobs):
            base = offset[kind[0]] + k * PER
            corr_bad += [base + i for i in res["corr_bad"]]
            spec_bad += [base + i for i in res["spec_bad"]]
            outside_rt += [base + i for i in (res["outside_rt"] or [])]
    ctx.log("corr_bad=%d spec_bad=%d" % (len(corr_bad), len(spec_bad)))
    hung = [i for i, c in enumerate(cases) if c["kind"] == "tworun" and c["case"].get("hung")]
    for i in hung[:3]:
        ctx.violation({"kind": "no-result", "case": describe(cases[i]), "case_index": i,
                       "explanation": "guidedremediation.FixVulns (or the analysis around it) did not return on this input: no "
                                      "report and no written manifest to compare. A miss of the 30 s watchdog is only a candidate; "
                                      "the first one of a run is confirmed by letting that single execution continue alone up to "
                                      "300 s (10x) - this one was still not back. Every other case takes a few milliseconds."})
    if corpus_corr and not corr_bad:
        w = corpus_corr[0]
        ctx.violation({"kind": "correspondence-broken", "correspondence": CORR, "theorems_no_longer_tied_to_code": THEOREMS,
                       "first_mismatch": {"universe": w["universe"], "opts": w["opts"]}, "regression_corpus": w["id"],
                       "explanation": "model and implementation disagree on this corpus input"}, nofail=True)

    # ---------------- evidence
    two = by_kind.get("tworun", [])
    seen, dist = set(), {"sys": {}, "strategy": {}, "chosen_patches": {}, "candidate_patches": {}, "options": {}, "streams": {}}

    def bump(d, k):
        d[str(k)] = d.get(str(k), 0) + 1

    errs = 0
    for c in two:
        u, o = c["universe"], c["opts"]
        bump(dist["sys"], u["sys"])
        bump(dist["strategy"], o["strategy"])
        bump(dist["streams"], c["stream"])
        bump(dist["chosen_patches"], len(c.get("res_patches") or []))
        bump(dist["candidate_patches"], min(len(c.get("all_patches") or []), 5))
        for k, on in (("ignore", bool(o["ignore"])), ("explicit", bool(o["explicit"])), ("no_dev_deps", not o["dev_deps"]),
                      ("min_severity", o["min_severity"] > 0), ("max_depth", o["max_depth"] > 0),
                      ("no_introduce", o["no_introduce"]), ("max_upgrades_1", o["max_upgrades"] == 1),
                      ("upgrade_config", bool(o.get("upgrade"))),
                      ("upgrade_none_on_vulnerable_pkg", any(l == "none" and any(v["pkg"] == p for v in u["vulns"])
                                                             for p, l in (o.get("upgrade") or {}).items())),
                      ("applied_patch_fixes_vuln_in_none_pkg", any((o.get("upgrade") or {}).get(q[0]) == "none"
                                                                   for pt in (c.get("res_patches") or [])
                                                                   for v in (pt.get("fixed") or []) for q in v["packages"])),
                      ("maven_management", o["maven_management"]), ("introduces", any(p.get("introduced") for p in (c.get("res_patches") or []))),
                      ("bytes_changed", c.get("bytes_changed", False))):
            if on:
                bump(dist["options"], k)
        if not c["ok"]:
            errs += 1
        if c.get("trace_retries"):
            bump(dist.setdefault("trace_reexecuted_to_match_run1", {}), c["stream"])
        if len((c.get("a0") or {}).get("kept") or []) >= 1 and len(c.get("all_patches") or []) >= 1:
            seen.add(vlib.sha([u["sys"], u["schema"], u["manifest"], u["vulns"], o]))
    dist["two_run_cases_with_an_error_return"] = errs
    ctx.coverage["load_induced_timeouts"] = sum(1 for c in two if c.get("load_induced_timeout"))
    ctx.coverage["confirmed_no_result_cases"] = sum(1 for c in two if c.get("hung"))
    dist["synthetic"] = {k[0]: len(by_kind.get(k[0], [])) for k in KINDS[:4]}
    gs = by_kind.get("graph", [])
    fl = {"analyses": len(gs), "vulnerabilities": 0, "depth_filter_on": 0, "rejected_by_depth": 0, "severity_filter_on": 0,
          "rejected_by_severity": 0, "fallback_to_affected_severity": 0, "unparsable_score": 0, "several_subgraphs": 0,
          "root_distance": {}}
    for c in gs:
        fl["depth_filter_on"] += c["max_depth"] > 0
        fl["severity_filter_on"] += c["min_severity"] > 0
        for v in c["all"] or []:
            fl["vulnerabilities"] += 1
            fl["rejected_by_depth"] += not v["depth_ok"]
            fl["rejected_by_severity"] += not v["sev_ok"]
            fl["fallback_to_affected_severity"] += (not v["top_scores"]) and bool(v["aff_scores"])
            fl["unparsable_score"] += any(x is None for x in (v["top_scores"] or []) + (v["aff_scores"] or []))
            fl["several_subgraphs"] += len(v["nodes"] or []) > 1
            for d in v["root_dist"] or []:
                bump(fl["root_distance"], d)
    dist["filters"] = fl
    dist["construct_outside_roundtrip_domain"] = len(outside_rt)
    dist["two_run_cases_with_escaped_names"] = sum(1 for c in two if not c["universe"]["name_safe"])

    def sample(c):
        if c["kind"] != "tworun":
            return c
        cc = c["case"]
        return {"kind": "tworun", "universe": cc["universe"], "opts": cc["opts"], "reported_vulnerabilities": cc.get("res_vulns"),
                "reported_patches": cc.get("res_patches"), "fresh_analysis_ids": cc.get("rerun_ids")}

    picks = [offset["tworun"], offset["tworun"] + len(two) // 2, offset["construct"], offset["choose"]]
    ctx.coverage.update({
        "evaluations": len(cases),
        "distinct_nontrivial": len(seen),
        "rule": "distinct by SHA-256 of (ecosystem, universe schema text, manifest, OSV records, options) of a two-run case; "
                "non-trivial when the first analysis keeps >= 1 vulnerability and the strategy yields >= 1 candidate patch "
                "(DESIGN.md section 14). Synthetic ConstructPatches/choosePatches/computeVulnsResult/MatchVuln cases are counted "
                "in evaluations only.",
        "samples": [sample(cases[i]) for i in picks if i < len(cases)],
        "exhaustive": False,
        "input_distribution": dist,
        "vm_compute_cases": len(cases),
        "regression_corpus": corpus_names,
        "hypotheses_validated": "writer/reader exactness and analysis-is-a-function are not assumed by the oracle: the sentence is "
                                "evaluated on the real written file and a real fresh analysis for every two-run case in D",
        "explanation": "two-run protocol: run 1 = real guidedremediation.FixVulns on a generated manifest; run 2 = fresh "
                       "ResolveManifest on the file it wrote (and a literal second FixVulns on a copy) with the same options; the "
                       "Coq spec checks orig - fixed + introduced, requirements unchanged when no patch, fixed never unactionable",
    })
    ctx.coverage["trusted_base"] = vlib.std_trusted_base(pa, tb_extra)
    ctx.assumptions += [
        "strings are abstracted to ranks under Go string order, dep.Types to ranks under dep.Type.Compare (computed by the harness)",
        "slices.SortFunc is modelled by insertion sort; all sorted lists in the modelled code have pairwise distinct keys "
        "(IDs, or update tuples that are then compacted), so the order is unique",
        "Go map iteration order (FindVulnerabilities, fixed/introduced maps) is canonicalised by sorting on ID in the harness",
    ]
    vlib.standard_decide(ctx, pa, corr_bad, spec_bad, cases, describe, THEOREMS, CORR)


def replay(ctx, path):
    ctx.coq_make(["theories/Reanalysis/Cases.vo"])
    binp, out = ctx.harness_build("reanalysis")
    if binp is None:
        print(out)
        return 2
    obj = json.load(open(path))
    c = obj.get("case") or obj.get("first_mismatch") or obj
    with tempfile.TemporaryDirectory(prefix="c12r-") as d:
        vf = os.path.join(d, "r.v")
        inner = c.get("case", c)
        if isinstance(inner, dict) and inner.get("universe"):
            wf = os.path.join(d, "w.json")
            json.dump({"universe": inner["universe"], "opts": inner["opts"]}, open(wf, "w"))
            rc, out = vlib.sh([binp, "-replay", wf, "-out", vf])
        elif c.get("pick"):
            rc, out = vlib.sh([binp, "-out", vf, "-pick", c["pick"]] + c["harness_args"])
        else:
            print("replay file has neither a two-run case nor a pick")
            return 2
        print(out)
        header, chunks = split_chunks(open(vf).read())
        for kind in KINDS:
            for name, body in chunks.get(kind[1], []):
                v = header + body + (
                    "Definition model_ok := Eval vm_compute in map %s %s.\nPrint model_ok.\n"
                    "Definition spec_ok := Eval vm_compute in map %s %s.\nPrint spec_ok.\n" % (kind[3], name, kind[4], name))
                if kind[2] == "tcase":
                    v += ("Definition model_fresh_ids := Eval vm_compute in map (fun c => map f_id (snd (resolve_graph_vulns (tc_opts c) (tc_all2 c)))) %s.\nPrint model_fresh_ids.\n"
                          "Definition expected_ids := Eval vm_compute in map (fun c => match tc_res_patches c with [p] => expected_after (map o_id (tc_res_vulns c)) (fixed_ids p) (ids (p_introduced p)) | _ => [] end) %s.\nPrint expected_ids.\n"
                          % (name, name))
                rc, o = ctx.run_cases("C12_replay", v)
                print(o)
    return 0

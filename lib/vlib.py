"""Shared machinery for /verif/bin/check.

Every property check (checks/Cxx.py) is built from the same steps:
  gate      - grep gate against Admitted/Axiom/... in the Coq sources
  prove     - full .vo build of the Coq files the property depends on, then forced
              re-compilation of Props_Cxx.v capturing the `Print Assumptions` output
  harness   - `go build -tags verif` of the Go harness from /repo's *current* tree
  correspond- the harness runs the real implementation on generated cases and writes a
              cases .v file (inputs + what the implementation returned); one coqc call
              evaluates, by vm_compute, (a) model(input) = observed and (b) spec(input, observed)
  decide    - spec failure  -> VIOLATION with concrete replay
              proof or correspondence failure without spec failure
                            -> VIOLATION ... no-failing-input-found
  evidence  - evidence/Cxx.json
"""
import hashlib
import json
import os
import re
import shutil
import subprocess
import sys
import time

VERIF = os.path.dirname(os.path.dirname(os.path.abspath(__file__)))
REPO = os.environ.get("VERIF_REPO", "/repo")
COQ = os.path.join(VERIF, "coq")
HARNESS = os.path.join(VERIF, "harness")
BUILD = os.path.join(VERIF, ".build")
EVIDENCE = os.environ.get("VERIF_EVIDENCE_DIR") or os.path.join(VERIF, "evidence")
REPLAYS = os.path.join(VERIF, "replays")
KNOWN = os.path.join(VERIF, "KNOWN_FINDINGS.json")

GATE_RE = re.compile(
    r"\b(Admitted|admit|Axiom|Axioms|Parameter|Parameters|Conjecture|Abort All|"
    r"Unset Guard Checking|Unset Positivity Checking|Unset Universe Checking|bypass_check|"
    r"Admit Obligations|type-in-type|impredicative-set)\b")

KERNEL_TB = [
    "Coq 8.16.1 kernel (coqc), full .vo build via coq_makefile; no -vos, no native_compute",
    "vm_compute (Coq bytecode VM) for finite-domain theorems, refuted-witnesses and the cases.v evaluation",
]


def go_env():
    env = dict(os.environ)
    env["GOFLAGS"] = "-mod=mod"
    env["GOPROXY"] = "off"
    # GOTOOLCHAIN/GOSUMDB must be left alone: the default go switches to the cached go1.24.0
    env.pop("GOTOOLCHAIN", None)
    env.pop("GOSUMDB", None)
    env.setdefault("GOCACHE", os.path.join(os.path.expanduser("~"), ".cache", "go-build"))
    return env


def sh(cmd, cwd=None, timeout=1800, env=None, input=None):
    """Run a command, return (rc, stdout+stderr)."""
    try:
        p = subprocess.run(cmd, cwd=cwd, env=env, input=input, stdout=subprocess.PIPE,
                           stderr=subprocess.STDOUT, timeout=timeout, text=True,
                           shell=isinstance(cmd, str))
        return p.returncode, p.stdout
    except subprocess.TimeoutExpired as e:
        out = e.stdout if isinstance(e.stdout, str) else (e.stdout or b"").decode("utf8", "replace")
        return 124, (out or "") + "\n[timeout after %ss]" % timeout


class Ctx:
    """State of one check run."""

    def __init__(self, pid, tier, seed):
        self.pid = pid
        self.tier = tier
        self.seed = seed
        self.t0 = time.time()
        self.violations = []      # (replay_path, nofail:bool, msg)
        self.known_printed = []
        self.coverage = {}
        self.assumptions = []
        self.notes = []
        self.proof_ok = True
        self.corr_ok = True
        os.makedirs(BUILD, exist_ok=True)
        self._prune_scratch()
        os.makedirs(EVIDENCE, exist_ok=True)
        os.makedirs(REPLAYS, exist_ok=True)

    def _prune_scratch(self):
        """Keep .build small: generated cases files older than 6 hours are scratch from earlier runs."""
        d = os.path.join(BUILD, "cases")
        if not os.path.isdir(d):
            return
        cutoff = time.time() - 6 * 3600
        for root, dirs, files in os.walk(d, topdown=False):
            for f in files:
                p = os.path.join(root, f)
                try:
                    if os.path.getmtime(p) < cutoff:
                        os.remove(p)
                except OSError:
                    pass
            for x in dirs:
                try:
                    os.rmdir(os.path.join(root, x))
                except OSError:
                    pass

    # ---------------------------------------------------------------- logging
    def log(self, *a):
        print("[%s %6.1fs]" % (self.pid, time.time() - self.t0), *a, flush=True)

    # ---------------------------------------------------------------- gate
    def gate(self, files):
        bad = []
        for f in files:
            p = os.path.join(COQ, "theories", f)
            txt = open(p).read()
            # strip comments (non-nested is enough for our sources; nested handled by loop)
            prev = None
            while prev != txt:
                prev = txt
                txt = re.sub(r"\(\*[^*(]*(?:\*(?!\))[^*(]*|\((?!\*)[^*(]*)*\*\)", " ", txt)
            for m in GATE_RE.finditer(txt):
                bad.append("%s: %s" % (f, m.group(0)))
        return bad

    # ---------------------------------------------------------------- coq
    def coq_make(self, targets, timeout=2400):
        env = dict(os.environ)
        env["COQ_TIMEOUT"] = str(timeout)
        return sh([os.path.join(VERIF, "bin", "coqmake")] + list(targets), cwd=COQ, timeout=timeout + 600, env=env)

    def prove(self, props_file, deps_note=None, clean=False, timeout=2400):
        """Build Props file (and everything it depends on) as full .vo; force recompile of the
        Props file itself so that this run's coqc output (Print Assumptions) is captured.
        Returns dict with obligations/discharged/axioms/ok/log."""
        props_path = os.path.join(COQ, "theories", props_file)
        vo = "theories/" + props_file[:-2] + ".vo"
        src = open(props_path).read()
        names = re.findall(r"^\s*(?:Theorem|Example|Lemma|Corollary)\s+([A-Za-z0-9_']+)", src, re.M)
        obligations = len(names)
        if clean:
            # thorough tier: rebuild this property's dependency cone from scratch
            for f in (clean if isinstance(clean, (list, tuple)) else []):
                for ext in (".vo", ".vok", ".vos", ".glob"):
                    try:
                        os.remove(os.path.join(COQ, "theories", f[:-2] + ext))
                    except FileNotFoundError:
                        pass
        for ext in (".vo", ".vok", ".vos", ".glob"):
            try:
                os.remove(props_path[:-2] + ext)
            except FileNotFoundError:
                pass
        t = time.time()
        # build the Props file and every other module of the same area (cases files import helper modules such
        # as <Area>/Cases.v that are not in the Props file's dependency cone; a stale .vo of those would make
        # coqc fail with "inconsistent assumptions" after a model edit)
        area_dir = os.path.dirname(props_path)
        area_targets = sorted("theories/" + os.path.relpath(os.path.join(area_dir, f), os.path.join(COQ, "theories"))[:-2] + ".vo"
                              for f in os.listdir(area_dir) if f.endswith(".v"))
        rc, out = self.coq_make([vo] + [t for t in area_targets if t != vo], timeout=timeout)
        res = {"props_file": props_file, "obligations": obligations, "theorems": names,
               "build_s": round(time.time() - t, 1)}
        closed = len(re.findall(r"Closed under the global context", out))
        axiom_blocks = re.findall(r"^Axioms:\n((?:.+\n)+?)(?=\S|\Z)", out, re.M)
        axioms = sorted(set(re.findall(r"^([A-Za-z_][\w.']*)\s*:", "\n".join(axiom_blocks), re.M)))
        res["print_assumptions_closed"] = closed
        res["axioms"] = axioms
        res["ok"] = (rc == 0)
        res["log_tail"] = out[-3000:]
        if rc == 0:
            res["discharged"] = obligations
        else:
            # count theorems whose Qed went through before the failure: unknown -> 0
            res["discharged"] = 0
            self.proof_ok = False
        return res

    def coqchk(self, lib_names, timeout=3000):
        """Independent re-check of compiled .vo files (thorough tier). Does not clean anything."""
        t = time.time()
        rc, out = sh(["coqchk", "-silent", "-o", "-Q", "theories", "Scalibr"] + lib_names,
                     cwd=COQ, timeout=timeout)
        m = re.search(r"\* Axioms:(.*?)\n\s*\n\* Constants", out, re.S)
        axioms = " ".join(m.group(1).split()) if m else "?"
        res = {"rc": rc, "wall_s": round(time.time() - t, 1), "axioms": axioms, "libs": lib_names,
               "output_tail": out[-1200:]}
        self.coverage["coqchk"] = res
        if rc != 0:
            self.proof_ok = False
            self.violation({"kind": "coqchk-failed", "libs": lib_names, "log_tail": out[-3000:]}, nofail=True)
        return res

    def ensure_modules(self, vfile_text):
        """Build (full .vo, through bin/coqmake) every Scalibr module a generated cases file imports.
        Cases files often import helper modules (e.g. Walk.Cases) that are not in the dependency cone of the
        Props file; without this a stale .vo gives 'inconsistent assumptions' after a model edit."""
        import threading
        if not hasattr(self, "_mods_built"):
            self._mods_built = set()
            self._mods_lock = threading.Lock()
        mods = set()
        for m in re.finditer(r"From\s+Scalibr\s+Require\s+(?:Import|Export)?\s*([^.]*(?:\.[A-Za-z_][^.\s]*)*)\s*\.", vfile_text[:20000]):
            for tok in m.group(1).split():
                if re.match(r"^[A-Za-z_][\w]*(\.[A-Za-z_][\w']*)+$", tok):
                    mods.add(tok)
        for m in re.finditer(r"Require\s+(?:Import|Export)?\s+((?:Scalibr\.[\w.']+\s*)+)\.", vfile_text[:20000]):
            for tok in m.group(1).split():
                mods.add(tok[len("Scalibr."):])
        with self._mods_lock:
            todo = sorted(t for t in mods if t not in self._mods_built)
            targets = []
            for t in todo:
                rel = "theories/" + t.replace(".", "/")
                if os.path.exists(os.path.join(COQ, rel + ".v")):
                    targets.append(rel + ".vo")
            # group by area so that each coqmake call takes one area lock
            by_area = {}
            for t in targets:
                by_area.setdefault(t.split("/")[1], []).append(t)
            for area, ts in sorted(by_area.items()):
                rc, out = self.coq_make(ts)
                if rc != 0:
                    self.log("ensure_modules: build of %s failed:\n%s" % (ts, out[-1500:]))
            self._mods_built.update(todo)

    def run_cases(self, name, vfile_text, timeout=1800):
        """Compile a generated cases file. It must `Print` definitions; returns (rc, output)."""
        self.ensure_modules(vfile_text)
        d = os.path.join(BUILD, "cases")
        os.makedirs(d, exist_ok=True)
        p = os.path.join(d, name + ".v")
        with open(p, "w") as f:
            f.write(vfile_text)
        rc, out = sh(["coqc", "-Q", os.path.join(COQ, "theories"), "Scalibr", p], cwd=d, timeout=timeout)
        return rc, out

    # ---------------------------------------------------------------- go
    def harness_build(self, cmd, tags="verif", race=False, timeout=1500):
        """go build harness/cmd/<cmd> against /repo's current working tree."""
        gosum = os.path.join(HARNESS, "go.sum")
        shutil.copyfile(os.path.join(REPO, "go.sum"), gosum)
        suffix = ""
        modargs = []
        if os.path.realpath(REPO) != "/repo":
            # scratch worktree (mutation testing): alternative go.mod with the replace redirected
            suffix = "-" + hashlib.sha256(REPO.encode()).hexdigest()[:8]
            altdir = os.path.join(BUILD, "altmod")
            os.makedirs(altdir, exist_ok=True)
            alt = os.path.join(altdir, "go%s.mod" % suffix)
            txt = open(os.path.join(HARNESS, "go.mod")).read().replace("=> /repo", "=> " + os.path.realpath(REPO))
            open(alt, "w").write(txt)
            shutil.copyfile(os.path.join(REPO, "go.sum"), alt[:-4] + ".sum")
            modargs = ["-modfile=" + alt]
        outbin = os.path.join(BUILD, "bin", cmd + suffix + ("-race" if race else ""))
        os.makedirs(os.path.dirname(outbin), exist_ok=True)
        args = ["go", "build"] + modargs + ["-tags", tags, "-o", outbin]
        if race:
            args.append("-race")
        args.append("./cmd/" + cmd)
        t = time.time()
        rc, out = sh(args, cwd=HARNESS, env=go_env(), timeout=timeout)
        self.log("go build %s rc=%d (%.1fs)" % (cmd, rc, time.time() - t))
        if rc != 0:
            return None, out
        return outbin, out

    # ---------------------------------------------------------------- findings
    def known_findings(self):
        """Entries of KNOWN_FINDINGS.json and KNOWN_FINDINGS.d/*.json (both committed, never written at run time)."""
        import glob
        out = []
        try:
            out += json.load(open(KNOWN)).get("findings", [])
        except FileNotFoundError:
            pass
        for f in sorted(glob.glob(os.path.join(VERIF, "KNOWN_FINDINGS.d", "*.json"))):
            k = json.load(open(f))
            out += k if isinstance(k, list) else k.get("findings", [])
        return [e for e in out if e.get("property") == self.pid and e.get("status", "known") == "known"]

    def print_known(self, entry, still_fails=True):
        line = "KNOWN-FINDING: property=%s %s [%s]" % (self.pid, entry["what"], entry["id"])
        print(line, flush=True)
        self.known_printed.append(entry["id"])

    # ---------------------------------------------------------------- verdicts
    def violation(self, replay_obj, nofail=False, tag=None):
        n = len(self.violations)
        path = os.path.join(REPLAYS, "%s-%d-%d.json" % (self.pid, self.seed, n))
        replay_obj = dict(replay_obj)
        replay_obj.setdefault("property", self.pid)
        replay_obj.setdefault("seed", self.seed)
        replay_obj.setdefault("tier", self.tier)
        replay_obj["no_failing_input_found"] = bool(nofail)
        with open(path, "w") as f:
            json.dump(replay_obj, f, indent=1, sort_keys=True, default=str)
        self.violations.append((path, nofail, tag))
        line = "VIOLATION property=%s replay=%s" % (self.pid, path)
        if nofail:
            line += " no-failing-input-found"
        print(line, flush=True)

    def finish(self, level="proof"):
        cov = dict(self.coverage)
        cov.setdefault("trusted_base", [])
        ev = {
            "property_id": self.pid,
            "tier": self.tier,
            "seed": self.seed,
            "level": level,
            "coverage": cov,
            "assumptions": self.assumptions,
            "wall_s": round(time.time() - self.t0, 2),
            "violations": len(self.violations),
        }
        if self.known_printed:
            ev["coverage"]["known_findings_replayed"] = self.known_printed
        if self.notes:
            ev["coverage"]["notes"] = self.notes
        with open(os.path.join(EVIDENCE, self.pid + ".json"), "w") as f:
            json.dump(ev, f, indent=1, default=str)
        self.log("done: %d violation(s), wall %.1fs" % (len(self.violations), ev["wall_s"]))
        return 1 if self.violations else 0


# -------------------------------------------------------------------- helpers
def parse_printed_list(out, name):
    """Find `name = [..]` in coqc output (possibly wrapped) and return the list of ints,
    or None when the definition was not printed."""
    m = re.search(r"\b%s\s*=\s*(\[[^\]]*\])" % re.escape(name), out, re.S)
    if not m:
        return None
    body = m.group(1)
    return [int(x) for x in re.findall(r"-?\d+", body)]


def parse_printed_term(out, name):
    m = re.search(r"\b%s\s*=\s*(.*?)\n\s*:\s" % re.escape(name), out, re.S)
    if not m:
        return None
    return " ".join(m.group(1).split())


def sha(x):
    return hashlib.sha256(json.dumps(x, sort_keys=True, default=str).encode()).hexdigest()


def std_trusted_base(pa, extra=()):
    tb = list(KERNEL_TB)
    if pa.get("axioms"):
        tb.append("axioms reported by Print Assumptions: " + ", ".join(pa["axioms"]))
    else:
        tb.append("Print Assumptions: every property theorem is 'Closed under the global context' (no axioms)")
    tb.extend(extra)
    return tb


def proof_coverage(ctx, pa, checker_cmd=None):
    ctx.coverage["obligations"] = pa["obligations"]
    ctx.coverage["discharged"] = pa["discharged"]
    ctx.coverage["checker_cmd"] = checker_cmd or (
        "cd /verif/coq && coq_makefile -f _CoqProject -o Makefile && make -j16 theories/%s.vo"
        % pa["props_file"][:-2])
    ctx.coverage["theorems"] = pa["theorems"]
    ctx.coverage["print_assumptions_closed"] = pa["print_assumptions_closed"]
    ctx.coverage["axioms"] = pa["axioms"]
    ctx.coverage["proof_build_s"] = pa["build_s"]


def standard_decide(ctx, pa, corr_bad, spec_bad, cases, describe, theorem_names, corr_name):
    """Common decision logic.
    corr_bad / spec_bad: lists of case indices (into `cases`) where model != impl resp. where the
    spec fails on the implementation's own output (already filtered for known findings)."""
    for i in spec_bad[:5]:
        ctx.violation({"kind": "spec-failure", "case": describe(cases[i]), "case_index": i,
                       "explanation": "the implementation's observed output violates the Coq spec "
                                      "evaluated by vm_compute on this input"})
    if spec_bad:
        return
    if not pa["ok"]:
        ctx.violation({"kind": "proof-broken", "theorems": theorem_names,
                       "props_file": pa["props_file"], "log_tail": pa["log_tail"],
                       "explanation": "the Coq development no longer compiles; no failing input found "
                                      "by the correspondence/oracle search of this run"}, nofail=True)
    if corr_bad:
        i = corr_bad[0]
        ctx.violation({"kind": "correspondence-broken", "correspondence": corr_name,
                       "theorems_no_longer_tied_to_code": theorem_names,
                       "first_mismatch": describe(cases[i]), "mismatches": len(corr_bad),
                       "explanation": "model and implementation disagree on this input, so the theorems "
                                      "no longer speak about the code; the spec oracle found no input on "
                                      "which the property itself fails"}, nofail=True)
